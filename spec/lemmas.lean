/-
Real-analysis facts used as ground axiom instances by the SMT layer (pyvc/axioms.py) and the
adequacy of the ∂V column of the specification table (pyvc/spec.py), proved against Mathlib.
Checked by `./check lemmas` (lean 4.33 + Mathlib, offline).  `ipow x n` is `x ^ n` for a natural
n; `root x n` is the sign-preserving real n-th root.
-/
import Mathlib
open Real

noncomputable section

/-- the sign-preserving real n-th root used by the specification -/
def sroot (x : ℝ) (n : ℕ) : ℝ := if 0 ≤ x then x ^ ((1:ℝ) / n) else -((-x) ^ ((1:ℝ) / n))

/-! ### exp / ln schemas -/
theorem ax_exp_pos (t : ℝ) : 0 < Real.exp t := Real.exp_pos t
theorem ax_ln_exp (t : ℝ) : Real.log (Real.exp t) = t := Real.log_exp t
theorem ax_exp_ln (x : ℝ) (h : 0 < x) : Real.exp (Real.log x) = x := Real.exp_log h
theorem ax_exp_zero : Real.exp 0 = 1 := Real.exp_zero
theorem ax_ln_one : Real.log 1 = 0 := Real.log_one
theorem ax_exp_add (s t : ℝ) : Real.exp (s + t) = Real.exp s * Real.exp t := Real.exp_add s t
theorem ax_exp_neg (t : ℝ) : Real.exp (-t) = 1 / Real.exp t := by rw [Real.exp_neg]; ring
theorem ax_exp_sub (s t : ℝ) : Real.exp (s - t) = Real.exp s / Real.exp t := Real.exp_sub s t
theorem ax_ln_mul (x y : ℝ) (hx : 0 < x) (hy : 0 < y) : Real.log (x * y) = Real.log x + Real.log y :=
  Real.log_mul (ne_of_gt hx) (ne_of_gt hy)
theorem ax_ln_div (x y : ℝ) (hx : 0 < x) (hy : 0 < y) : Real.log (x / y) = Real.log x - Real.log y :=
  Real.log_div (ne_of_gt hx) (ne_of_gt hy)
theorem ax_ln_pos (x : ℝ) (h : 1 < x) : 0 < Real.log x := Real.log_pos h
theorem ax_ln_neg (x : ℝ) (h0 : 0 < x) (h1 : x < 1) : Real.log x < 0 := Real.log_neg h0 h1
theorem ax_ln_e : Real.log (Real.exp 1) = 1 := Real.log_exp 1
theorem ax_e_bounds : (2.718 : ℝ) < Real.exp 1 ∧ Real.exp 1 < 2.719 := by
  constructor
  · have := Real.exp_one_gt_d9; linarith
  · have := Real.exp_one_lt_d9; linarith

/-! ### sin / cos schemas -/
theorem ax_sin_neg (t : ℝ) : Real.sin (-t) = - Real.sin t := Real.sin_neg t
theorem ax_cos_neg (t : ℝ) : Real.cos (-t) = Real.cos t := Real.cos_neg t
theorem ax_sin_range (t : ℝ) : -1 ≤ Real.sin t ∧ Real.sin t ≤ 1 := ⟨Real.neg_one_le_sin t, Real.sin_le_one t⟩
theorem ax_cos_range (t : ℝ) : -1 ≤ Real.cos t ∧ Real.cos t ≤ 1 := ⟨Real.neg_one_le_cos t, Real.cos_le_one t⟩

/-! ### integer power schemas -/
theorem ax_ipow_zero (x : ℝ) : x ^ (0:ℕ) = 1 := pow_zero x
theorem ax_ipow_one (x : ℝ) : x ^ (1:ℕ) = x := pow_one x
theorem ax_ipow_two (x : ℝ) : x ^ (2:ℕ) = x * x := by ring
theorem ax_ipow_succ (x : ℝ) (n : ℕ) (h : 1 ≤ n) : x ^ n = x * x ^ (n - 1) := by
  obtain ⟨k, rfl⟩ : ∃ k, n = k + 1 := ⟨n - 1, by omega⟩
  simp [pow_succ, mul_comm]
theorem ax_ipow_eq_zero (x : ℝ) (n : ℕ) (h : 1 ≤ n) : x ^ n = 0 ↔ x = 0 := by
  constructor
  · intro hx; exact pow_eq_zero_iff (by omega) |>.mp hx
  · intro hx; rw [hx]; exact zero_pow (by omega)
theorem ax_ipow_pos (x : ℝ) (n : ℕ) (h : 0 < x) : 0 < x ^ n := pow_pos h n
theorem ax_ipow_exp (x : ℝ) (n : ℕ) (h : 0 < x) : x ^ n = Real.exp (n * Real.log x) := by
  rw [mul_comm, Real.exp_mul, Real.exp_log h]; exact (Real.rpow_natCast x n).symm
theorem ax_ipow_even_nonneg (x : ℝ) (n : ℕ) (h : Even n) : 0 ≤ x ^ n := h.pow_nonneg x
theorem ax_ipow_one_base (n : ℕ) : (1:ℝ) ^ n = 1 := one_pow n
theorem ax_ipow_neg_even (x : ℝ) (n : ℕ) (h : Even n) : (-x) ^ n = x ^ n := h.neg_pow x
theorem ax_ipow_neg_odd (x : ℝ) (n : ℕ) (h : Odd n) : (-x) ^ n = - x ^ n := h.neg_pow x
theorem ax_ipow_mul (a b : ℝ) (n : ℕ) : (a * b) ^ n = a ^ n * b ^ n := mul_pow a b n
theorem ax_ipow_div (a b : ℝ) (n : ℕ) : (a / b) ^ n = a ^ n / b ^ n := div_pow a b n
theorem ax_ipow_ipow (x : ℝ) (m n : ℕ) : (x ^ m) ^ n = x ^ (m * n) := (pow_mul x m n).symm

/-! ### root schemas -/
theorem ax_root_one (x : ℝ) : sroot x 1 = x := by
  unfold sroot
  by_cases h : 0 ≤ x
  · simp [h]
  · simp [h]

theorem ax_root_pos (x : ℝ) (n : ℕ) (hx : 0 < x) (hn : 1 ≤ n) :
    0 < sroot x n ∧ sroot x n = Real.exp (Real.log x / n) ∧ (sroot x n) ^ n = x := by
  have hn0 : (n:ℝ) ≠ 0 := by positivity
  have h0 : 0 ≤ x := le_of_lt hx
  have e : sroot x n = x ^ ((1:ℝ) / n) := by unfold sroot; simp [h0]
  refine ⟨?_, ?_, ?_⟩
  · rw [e]; exact Real.rpow_pos_of_pos hx _
  · rw [e, Real.rpow_def_of_pos hx]; congr 1; ring
  · rw [e, ← Real.rpow_natCast, ← Real.rpow_mul h0]
    have : (1:ℝ) / n * n = 1 := by field_simp
    rw [this, Real.rpow_one]

theorem ax_root_neg (x : ℝ) (n : ℕ) (hx : x ≠ 0) : sroot (-x) n = - sroot x n := by
  unfold sroot
  rcases lt_or_gt_of_ne hx with h | h
  · have h1 : ¬ (0 ≤ x) := not_le.mpr h
    have h2 : 0 ≤ -x := by linarith
    simp [h1, h2]
  · have h1 : 0 ≤ x := le_of_lt h
    have h2 : ¬ (0 ≤ -x) := by intro hh; linarith
    simp [h1, h2]

theorem ax_root_neg_odd (x : ℝ) (n : ℕ) (hx : x < 0) (hn : Odd n) :
    sroot x n < 0 ∧ (sroot x n) ^ n = x := by
  have hpos : 0 < -x := by linarith
  have hn1 : 1 ≤ n := hn.pos
  obtain ⟨p1, _, p3⟩ := ax_root_pos (-x) n hpos hn1
  have e : sroot x n = - sroot (-x) n := by
    have := ax_root_neg (-x) n (ne_of_gt hpos)
    rw [neg_neg] at this; rw [this]
  refine ⟨by rw [e]; linarith, ?_⟩
  rw [e, hn.neg_pow, p3]; ring

/-! ### adequacy of the ∂V column: each row is Mathlib's derivative of the V column -/
section adequacy
variable (f g : ℝ → ℝ) (f' g' x : ℝ) (hf : HasDerivAt f f' x) (hg : HasDerivAt g g' x)

include hf hg in theorem d_add : HasDerivAt (fun y => f y + g y) (f' + g') x := hf.add hg
include hf hg in theorem d_minus : HasDerivAt (fun y => f y - g y) (f' - g') x := hf.sub hg
include hf in theorem d_neg : HasDerivAt (fun y => - f y) (- f') x := hf.neg
include hf hg in theorem d_mul : HasDerivAt (fun y => f y * g y) (f' * g x + f x * g') x := hf.mul hg
include hf hg in theorem d_div (h : g x ≠ 0) :
    HasDerivAt (fun y => f y / g y) (f' / g x - f x * g' / (g x * g x)) x := by
  have e : f' / g x - f x * g' / (g x * g x) = (f' * g x - f x * g') / (g x)^2 := by field_simp
  rw [e]; exact hf.div hg h
include hf in theorem d_recip (h : f x ≠ 0) :
    HasDerivAt (fun y => 1 / f y) (- f' / (f x * f x)) x := by
  have := hf.inv h
  have e : - f' / (f x * f x) = - f' / (f x)^2 := by ring
  simp only [one_div]; rw [e]; exact this
include hf in theorem d_npow (n : ℕ) :
    HasDerivAt (fun y => (f y)^n) ((n:ℝ) * (f x)^(n-1) * f') x := hf.pow n
include hf hg in theorem d_rpow (h : 0 < f x) : HasDerivAt (fun y => Real.exp (g y * Real.log (f y)))
    (Real.exp (g x * Real.log (f x)) * (g' * Real.log (f x) + g x * f' / f x)) x := by
  have h0 : HasDerivAt (fun y => g y * Real.log (f y)) (g' * Real.log (f x) + g x * (f' / f x)) x :=
    hg.mul (hf.log (ne_of_gt h))
  have h1 := h0.exp
  convert h1 using 1
  ring
include hf in theorem d_expb (b : ℝ) : HasDerivAt (fun y => Real.exp (f y * Real.log b))
    (Real.log b * Real.exp (f x * Real.log b) * f') x := by
  have := (hf.mul_const (Real.log b)).exp; convert this using 1; ring
include hf in theorem d_logb (b : ℝ) (h : 0 < f x) :
    HasDerivAt (fun y => Real.log (f y) / Real.log b) (f' / (f x * Real.log b)) x := by
  have e : f' / (f x * Real.log b) = f' / f x / Real.log b := by rw [div_div]
  rw [e]; exact (hf.log (ne_of_gt h)).div_const (Real.log b)
include hf in theorem d_sin : HasDerivAt (fun y => Real.sin (f y)) (Real.cos (f x) * f') x := hf.sin
include hf in theorem d_cos : HasDerivAt (fun y => Real.cos (f y)) (- Real.sin (f x) * f') x := hf.cos
include hf in theorem d_root_pos (n : ℕ) (hn : 2 ≤ n) (h : 0 < f x) :
    HasDerivAt (fun y => Real.exp (Real.log (f y) / n))
      (f' / (n * (Real.exp (Real.log (f x) / n))^(n-1))) x := by
  have h1 := ((hf.log (ne_of_gt h)).div_const (n:ℝ)).exp
  have hn0 : (n:ℝ) ≠ 0 := by positivity
  have hfx : f x ≠ 0 := ne_of_gt h
  have key : (Real.exp (Real.log (f x) / n))^(n-1) * Real.exp (Real.log (f x) / n) = f x := by
    rw [← pow_succ, Nat.sub_add_cancel (by omega), ← Real.exp_nat_mul,
        mul_div_cancel₀ _ hn0, Real.exp_log h]
  have hpos : 0 < Real.exp (Real.log (f x) / n) := Real.exp_pos _
  generalize Real.exp (Real.log (f x) / n) = E at *
  have hE : E ≠ 0 := ne_of_gt hpos
  have hEp : E^(n-1) ≠ 0 := pow_ne_zero _ hE
  have e : f' / (n * E^(n-1)) = E * (f' / f x / n) := by
    field_simp
    first | linear_combination f' * key | linear_combination (-f') * key
          | linear_combination (f' * (n:ℝ)) * key | linear_combination (-(f' * (n:ℝ))) * key
  rw [e]; exact h1
end adequacy

/-! ### root of products / quotients / roots (positive arguments) -/
theorem ax_root_mul_pos (a b : ℝ) (n : ℕ) (ha : 0 < a) (hb : 0 < b) :
    sroot (a * b) n = sroot a n * sroot b n := by
  have hab : 0 ≤ a * b := le_of_lt (mul_pos ha hb)
  unfold sroot
  simp [hab, le_of_lt ha, le_of_lt hb, Real.mul_rpow (le_of_lt ha) (le_of_lt hb)]

theorem ax_root_div_pos (a b : ℝ) (n : ℕ) (ha : 0 < a) (hb : 0 < b) :
    sroot (a / b) n = sroot a n / sroot b n := by
  have hab : 0 ≤ a / b := le_of_lt (div_pos ha hb)
  unfold sroot
  simp [hab, le_of_lt ha, le_of_lt hb, Real.div_rpow (le_of_lt ha) (le_of_lt hb)]

theorem ax_root_root_pos (y : ℝ) (m n : ℕ) (hy : 0 < y) (hm : 1 ≤ m) (hn : 1 ≤ n) :
    sroot (sroot y m) n = sroot y (m * n) := by
  have h0 : 0 ≤ y := le_of_lt hy
  have e1 : sroot y m = y ^ ((1:ℝ) / m) := by unfold sroot; simp [h0]
  have hp : 0 ≤ y ^ ((1:ℝ) / m) := Real.rpow_nonneg h0 _
  have hm0 : (m:ℝ) ≠ 0 := by positivity
  have hn0 : (n:ℝ) ≠ 0 := by positivity
  rw [e1]
  unfold sroot
  simp only [hp, h0, if_true]
  rw [← Real.rpow_mul h0]
  congr 1
  push_cast
  field_simp

theorem ax_ipow_root_same (y : ℝ) (n : ℕ) (hn : 1 ≤ n) (hy : 0 < y ∨ (Odd n ∧ y ≠ 0)) :
    (sroot y n) ^ n = y := by
  rcases hy with h | ⟨ho, hne⟩
  · exact (ax_root_pos y n h hn).2.2
  · rcases lt_or_gt_of_ne hne with h | h
    · exact (ax_root_neg_odd y n h ho).2
    · exact (ax_root_pos y n h hn).2.2

/-! ### big operators over lists of arbitrary length (G-mode) -/
theorem ax_bigsum_zero (f : ℕ → ℝ) : (Finset.range 0).sum f = 0 := Finset.sum_range_zero f
theorem ax_bigsum_succ (f : ℕ → ℝ) (n : ℕ) : (Finset.range (n + 1)).sum f = (Finset.range n).sum f + f n :=
  Finset.sum_range_succ f n
theorem ax_bigprod_zero_len (f : ℕ → ℝ) : (Finset.range 0).prod f = 1 := Finset.prod_range_zero f
theorem ax_bigprod_succ (f : ℕ → ℝ) (n : ℕ) : (Finset.range (n + 1)).prod f = (Finset.range n).prod f * f n :=
  Finset.prod_range_succ f n
theorem ax_bigsum_ext (f g : ℕ → ℝ) (n : ℕ) (h : ∀ i, i < n → f i = g i) :
    (Finset.range n).sum f = (Finset.range n).sum g :=
  Finset.sum_congr rfl (fun i hi => h i (Finset.mem_range.mp hi))
theorem ax_bigprod_ext (f g : ℕ → ℝ) (n : ℕ) (h : ∀ i, i < n → f i = g i) :
    (Finset.range n).prod f = (Finset.range n).prod g :=
  Finset.prod_congr rfl (fun i hi => h i (Finset.mem_range.mp hi))
theorem ax_bigprod_has_zero (f : ℕ → ℝ) (n j : ℕ) (hj : j < n) (h : f j = 0) : (Finset.range n).prod f = 0 :=
  Finset.prod_eq_zero (Finset.mem_range.mpr hj) h
/-- adequacy of the dV row of an n-ary sum -/
theorem d_bigsum (n : ℕ) (F : ℕ → ℝ → ℝ) (F' : ℕ → ℝ) (x : ℝ)
    (h : ∀ i ∈ Finset.range n, HasDerivAt (F i) (F' i) x) :
    HasDerivAt (fun y => ∑ i ∈ Finset.range n, F i y) (∑ i ∈ Finset.range n, F' i) x :=
  HasDerivAt.fun_sum h

/-! ### sign-preserving roots are multiplicative for arguments of any sign -/
theorem sroot_nonneg_eq (x : ℝ) (n : ℕ) (h : 0 ≤ x) : sroot x n = x ^ ((1:ℝ)/n) := by unfold sroot; simp [h]
theorem sroot_neg_eq (x : ℝ) (n : ℕ) (h : x < 0) : sroot x n = -((-x) ^ ((1:ℝ)/n)) := by
  unfold sroot; simp [not_le.mpr h]

/-- sign-preserving roots are multiplicative for arguments of any sign (used for odd n) -/
theorem ax_root_mul_any (a b : ℝ) (n : ℕ) (ha : a ≠ 0) (hb : b ≠ 0) :
    sroot (a * b) n = sroot a n * sroot b n := by
  rcases lt_or_gt_of_ne ha with ha' | ha' <;> rcases lt_or_gt_of_ne hb with hb' | hb'
  · have hab : 0 ≤ a * b := le_of_lt (mul_pos_of_neg_of_neg ha' hb')
    rw [sroot_nonneg_eq _ _ hab, sroot_neg_eq _ _ ha', sroot_neg_eq _ _ hb']
    have : a * b = (-a) * (-b) := by ring
    rw [this, Real.mul_rpow (by linarith) (by linarith)]; ring
  · have hab : a * b < 0 := mul_neg_of_neg_of_pos ha' hb'
    rw [sroot_neg_eq _ _ hab, sroot_neg_eq _ _ ha', sroot_nonneg_eq _ _ (le_of_lt hb')]
    have : -(a * b) = (-a) * b := by ring
    rw [this, Real.mul_rpow (by linarith) (by linarith)]; ring
  · have hab : a * b < 0 := mul_neg_of_pos_of_neg ha' hb'
    rw [sroot_neg_eq _ _ hab, sroot_nonneg_eq _ _ (le_of_lt ha'), sroot_neg_eq _ _ hb']
    have : -(a * b) = a * (-b) := by ring
    rw [this, Real.mul_rpow (by linarith) (by linarith)]; ring
  · have hab : 0 ≤ a * b := le_of_lt (mul_pos ha' hb')
    rw [sroot_nonneg_eq _ _ hab, sroot_nonneg_eq _ _ (le_of_lt ha'), sroot_nonneg_eq _ _ (le_of_lt hb')]
    rw [Real.mul_rpow (le_of_lt ha') (le_of_lt hb')]

/-- adequacy of the dV row of an n-ary product: sum_i (prod_{j != i} V_j) * dV_i -/
theorem d_bigprod (n : ℕ) (F : ℕ → ℝ → ℝ) (F' : ℕ → ℝ) (x : ℝ)
    (h : ∀ i ∈ Finset.range n, HasDerivAt (F i) (F' i) x) :
    HasDerivAt (fun y => ∏ i ∈ Finset.range n, F i y)
      (∑ i ∈ Finset.range n, (∏ j ∈ (Finset.range n).erase i, F j x) * F' i) x := by
  have := HasDerivAt.fun_finsetProd (u := Finset.range n) (f := F) (f' := F') (x := x) h
  simpa [smul_eq_mul] using this

theorem ax_bigsum_of_zeros (f : ℕ → ℝ) (n : ℕ) (h : ∀ i, i < n → f i = 0) : (Finset.range n).sum f = 0 :=
  Finset.sum_eq_zero (fun i hi => h i (Finset.mem_range.mp hi))

/-! ### G-mode: lists with one entry removed, lists with an entry in front (added with the
Multiply reverse-mode proof for symbolic arity) -/

theorem ax_bigprod_cons (a : ℝ) (g : ℕ → ℝ) (n : ℕ) :
    ∏ i ∈ Finset.range (n + 1), (if i = 0 then a else g (i - 1)) = a * ∏ i ∈ Finset.range n, g i := by
  rw [Finset.prod_range_succ']
  simp [mul_comm]

theorem ax_bigprod_without (V : ℕ → ℝ) (i m : ℕ) (hi : i ≤ m) :
    ∏ u ∈ Finset.range m, (if u < i then V u else V (u + 1)) = ∏ j ∈ (Finset.range (m + 1)).erase i, V j := by
  induction m with
  | zero =>
    have : i = 0 := by omega
    subst this
    simp
  | succ m ih =>
    rcases Nat.lt_or_ge m i with h | h
    · -- i = m + 1
      have hi' : i = m + 1 := by omega
      subst hi'
      have : (Finset.range (m + 1 + 1)).erase (m + 1) = Finset.range (m + 1) := by
        rw [Finset.range_add_one (n := m + 1)]
        exact Finset.erase_insert (by simp)
      rw [this]
      apply Finset.prod_congr rfl
      intro u hu
      have : u < m + 1 := Finset.mem_range.mp hu
      simp [this]
    · rw [Finset.prod_range_succ, ih h]
      have hm : ¬ (m < i) := by omega
      simp only [hm, if_false]
      have : (Finset.range (m + 1 + 1)).erase i = insert (m + 1) ((Finset.range (m + 1)).erase i) := by
        rw [Finset.range_add_one (n := m + 1), Finset.erase_insert_of_ne (by omega)]
      rw [this, Finset.prod_insert (by simp), mul_comm]

theorem ax_bigsum_zero_or_witness (f : ℕ → ℝ) (n : ℕ) :
    (Finset.range n).sum f = 0 ∨ ∃ w, w < n ∧ f w ≠ 0 := by
  by_cases h : ∀ i, i < n → f i = 0
  · left; exact Finset.sum_eq_zero (fun i hi => h i (Finset.mem_range.mp hi))
  · right
    obtain ⟨w, hw⟩ := not_forall.mp h
    exact ⟨w, (Classical.not_imp.mp hw).1, (Classical.not_imp.mp hw).2⟩

/-- adequacy of the dV row of an n-ary product in the form the G-mode spec uses: the product
over the list with its i-th entry removed -/
theorem d_bigprod_without (m : ℕ) (F : ℕ → ℝ → ℝ) (F' : ℕ → ℝ) (x : ℝ)
    (h : ∀ i ∈ Finset.range (m + 1), HasDerivAt (F i) (F' i) x) :
    HasDerivAt (fun y => ∏ i ∈ Finset.range (m + 1), F i y)
      (∑ i ∈ Finset.range (m + 1), F' i * ∏ u ∈ Finset.range m, (if u < i then F u x else F (u + 1) x)) x := by
  have := d_bigprod (m + 1) F F' x h
  convert this using 1
  apply Finset.sum_congr rfl
  intro i hi
  rw [ax_bigprod_without (fun j => F j x) i m (by have := Finset.mem_range.mp hi; omega)]
  ring

/-! ### G-mode: filtered operand lists (rules that drop neutral operands) -/

theorem ax_bigsum_filter (f : ℕ → ℝ) (P : ℕ → Prop) [DecidablePred P] (n : ℕ)
    (h : ∀ i, i < n → ¬ P i → f i = 0) :
    ∑ i ∈ (Finset.range n).filter P, f i = ∑ i ∈ Finset.range n, f i := by
  apply Finset.sum_filter_of_ne
  intro x hx hne
  by_contra hp
  exact hne (h x (Finset.mem_range.mp hx) hp)

theorem ax_bigprod_filter (f : ℕ → ℝ) (P : ℕ → Prop) [DecidablePred P] (n : ℕ)
    (h : ∀ i, i < n → ¬ P i → f i = 1) :
    ∏ i ∈ (Finset.range n).filter P, f i = ∏ i ∈ Finset.range n, f i := by
  apply Finset.prod_filter_of_ne
  intro x hx hne
  by_contra hp
  exact hne (h x (Finset.mem_range.mp hx) hp)

/-- the kept entries, in order, as a list: its sum is the filter sum -/
theorem ax_filter_list_sum (f : ℕ → ℝ) (P : ℕ → Prop) [DecidablePred P] (n : ℕ) :
    (((List.range n).filter (fun i => decide (P i))).map f).sum = ∑ i ∈ (Finset.range n).filter P, f i := by
  have hnd : ((List.range n).filter (fun i => decide (P i))).Nodup := (List.nodup_range).filter _
  rw [← List.sum_toFinset f hnd]
  congr 1
  ext x
  simp

theorem ax_filter_list_prod (f : ℕ → ℝ) (P : ℕ → Prop) [DecidablePred P] (n : ℕ) :
    (((List.range n).filter (fun i => decide (P i))).map f).prod = ∏ i ∈ (Finset.range n).filter P, f i := by
  have hnd : ((List.range n).filter (fun i => decide (P i))).Nodup := (List.nodup_range).filter _
  rw [← List.prod_toFinset f hnd]
  congr 1
  ext x
  simp

/-! ### G-mode: partition of an operand list by a predicate -/

theorem ax_bigsum_partition (f : ℕ → ℝ) (P : ℕ → Prop) [DecidablePred P] (n : ℕ) :
    ∑ i ∈ Finset.range n, f i
      = ∑ i ∈ (Finset.range n).filter P, f i + ∑ i ∈ (Finset.range n).filter (fun i => ¬ P i), f i :=
  (Finset.sum_filter_add_sum_filter_not (Finset.range n) P f).symm

theorem ax_bigprod_partition (f : ℕ → ℝ) (P : ℕ → Prop) [DecidablePred P] (n : ℕ) :
    ∏ i ∈ Finset.range n, f i
      = (∏ i ∈ (Finset.range n).filter P, f i) * ∏ i ∈ (Finset.range n).filter (fun i => ¬ P i), f i :=
  (Finset.prod_filter_mul_prod_filter_not (Finset.range n) P f).symm

/-- lengths of the two parts add up -/
theorem ax_partition_lengths (P : ℕ → Prop) [DecidablePred P] (n : ℕ) :
    ((List.range n).filter (fun i => decide (P i))).length + ((List.range n).filter (fun i => !decide (P i))).length = n := by
  have h := List.length_eq_length_filter_add (l := List.range n) (fun i => decide (P i))
  simp only [List.length_range] at h
  exact h.symm

/-! ### G-mode: operands of negation nodes -/

theorem ax_bigsum_neg (f : ℕ → ℝ) (n : ℕ) : ∑ i ∈ Finset.range n, -f i = -∑ i ∈ Finset.range n, f i :=
  Finset.sum_neg_distrib f

theorem ax_bigprod_neg (f : ℕ → ℝ) (n : ℕ) :
    ∏ i ∈ Finset.range n, -f i = (if n % 2 = 0 then 1 else -1) * ∏ i ∈ Finset.range n, f i := by
  rw [Finset.prod_neg, Finset.card_range]
  congr 1
  rcases Nat.even_or_odd n with h | h
  · rw [h.neg_one_pow, if_pos (Nat.even_iff.mp h)]
  · rw [h.neg_one_pow, if_neg (by rw [Nat.odd_iff] at h; omega)]

/-! ### G-mode: a list with one entry replaced (step driver) -/
theorem ax_bigprod_split_entry (f : ℕ → ℝ) (j m : ℕ) (hj : j ≤ m) :
    ∏ i ∈ Finset.range (m + 1), f i = f j * ∏ u ∈ Finset.range m, (if u < j then f u else f (u + 1)) := by
  rw [ax_bigprod_without f j m hj]
  exact (Finset.mul_prod_erase (Finset.range (m + 1)) f (Finset.mem_range.mpr (by omega))).symm

/-! ### G-mode: splitting a sum / product at an index (flattening rules) -/
theorem ax_bigsum_split_at (f : ℕ → ℝ) (i n : ℕ) (h : i < n) :
    ∑ t ∈ Finset.range n, f t = ∑ t ∈ Finset.range i, f t + f i + ∑ u ∈ Finset.range (n - i - 1), f (u + i + 1) := by
  have hn : n = (i + 1) + (n - i - 1) := by omega
  conv_lhs => rw [hn]
  rw [Finset.sum_range_add, Finset.sum_range_succ]
  congr 1
  apply Finset.sum_congr rfl
  intro u _
  congr 1
  omega

theorem ax_bigprod_split_at (f : ℕ → ℝ) (i n : ℕ) (h : i < n) :
    ∏ t ∈ Finset.range n, f t = (∏ t ∈ Finset.range i, f t) * f i * ∏ u ∈ Finset.range (n - i - 1), f (u + i + 1) := by
  have hn : n = (i + 1) + (n - i - 1) := by omega
  conv_lhs => rw [hn]
  rw [Finset.prod_range_add, Finset.prod_range_succ]
  congr 1
  apply Finset.prod_congr rfl
  intro u _
  congr 1
  omega

/-! ### G-mode: operands of reciprocal nodes (normal form of products) -/
theorem ax_bigprod_inv (x : ℕ → ℝ) (n : ℕ) (h : ∀ i, i < n → x i ≠ 0) :
    (∏ i ∈ Finset.range n, x i) ≠ 0 ∧ ∏ i ∈ Finset.range n, 1 / x i = 1 / ∏ i ∈ Finset.range n, x i := by
  constructor
  · exact Finset.prod_ne_zero_iff.mpr (fun i hi => h i (Finset.mem_range.mp hi))
  · simp [Finset.prod_inv_distrib]

theorem ax_bigprod_inv_mul (x : ℕ → ℝ) (n : ℕ) (h : ∀ i, i < n → x i ≠ 0) :
    (∏ i ∈ Finset.range n, 1 / x i) * ∏ i ∈ Finset.range n, x i = 1 := by
  rw [← Finset.prod_mul_distrib]
  apply Finset.prod_eq_one
  intro i hi
  field_simp [h i (Finset.mem_range.mp hi)]
