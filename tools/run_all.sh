#!/bin/sh
# runs every registered check for one tier and prints the summary lines
cd "$(dirname "$0")/.."
tier="${1:-quick}"
rc=0
for p in C01 C02 C03 C04 C05 C06 C07 C08 C09 C10 C12 C13 C14 C15 C16 C17 C18; do
  ./check $p --tier "$tier" > /tmp/pyvc_$p.log 2>&1
  c=$?
  grep -E "^(VIOLATION|UNDECIDED|ENGINE|KNOWN)" /tmp/pyvc_$p.log | cut -c1-200
  tail -1 /tmp/pyvc_$p.log
  [ $c -ne 0 ] && rc=$c
done
exit $rc
