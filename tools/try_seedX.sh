#!/bin/sh
# tools/try_seedX.sh <worktree-prefix> <P> <i> [other properties]: scratch-mode triage of a seed in <prefix><P>
X="$1"; P="$2"; I="$3"; shift 3
W=$X$P
D=$W/out/change$I.diff
cd $W && git checkout -q -- . && git apply "$D" || { echo "APPLY-FAILED"; exit 2; }
T=$(cd $W && /venv/bin/python -m pytest -q -p no:cacheprovider 2>&1 | tail -1)
PYTHONPATH=$W/src /venv/bin/python $W/out/demo$I.py > /dev/null 2>&1; DW=$?
git checkout -q -- .
PYTHONPATH=$W/src /venv/bin/python $W/out/demo$I.py > /dev/null 2>&1; DO=$?
echo "[$P/$I] tests-with-change: $T | demo-with-change exit=$DW | demo-on-clean exit=$DO"
cd /verif
for Q in $P "$@"; do
  cd $W && git apply "$D" && cd /verif
  PYVC_REPO_SRC=$W/src PYVC_NO_EVIDENCE=1 ./check $Q > ${W}_check_${I}_$Q.txt 2>&1; C=$?
  git -C $W checkout -q -- .
  echo "[$P/$I] check $Q exit=$C"
  grep -E "^(VIOLATION|UNDECIDED|ENGINE|NOTE)" ${W}_check_${I}_$Q.txt | cut -c1-230 | head -4
  tail -1 ${W}_check_${I}_$Q.txt | cut -c1-200
done
