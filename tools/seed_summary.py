#!/usr/bin/env python3
"""Regenerates /verif/seeded/SUMMARY.md from the meta.json files."""
import glob, json, os
HERE = os.path.dirname(os.path.dirname(os.path.abspath(__file__)))
rows = []
for f in sorted(glob.glob(os.path.join(HERE, "seeded", "*", "meta.json"))):
    m = json.load(open(f))
    det = []
    for q, r in m["checks"].items():
        tag = {0: "passes", 1: "VIOLATION", 2: "undecided", 3: "engine-error"}.get(r["exit"], str(r["exit"]))
        extra = f" ({r['reproduced_on_real_code']}/{r['violations']} replays reproduced)" if r["exit"] == 1 else ""
        det.append(f"{q}: {tag}{extra}")
    first = ""
    own = m["checks"].get(m["breaks_property"], {})
    if own.get("failed_obligations"):
        first = own["failed_obligations"][0].split("  (")[0]
    need = " ".join(m["what_it_needs_to_manifest"].split())[:330]
    rows.append((m["seed_id"], m["breaks_property"], "yes" if m["confirmed"]["all_confirmed"] else "NO", "; ".join(det), first, need))
with open(os.path.join(HERE, "seeded", "SUMMARY.md"), "w") as fh:
    fh.write("# Independently seeded breaking changes\n\n"
             "Each directory holds `patch.diff` (apply with `git -C /repo apply`), `demo.py` (fails with the change, passes without) and\n"
             "`meta.json` (what was run, what each check reported).  Written by sub-agents that were given only the property text and a\n"
             "scratch worktree.  `confirmed` = the unedited test-suite passes with the change AND the demo fails with it AND passes on the clean tree.\n\n")
    caught = sum(1 for r in rows if f"{r[1]}: VIOLATION" in r[3])
    anyc = sum(1 for r in rows if "VIOLATION" in r[3])
    fh.write(f"{len(rows)} changes; caught by the check of the property they were written against: {caught}; caught by at least one registered check: {anyc}.\n\n")
    fh.write("| seed | property | confirmed | checks run against it | first failed obligation (own property) | what it needs to manifest |\n|---|---|---|---|---|---|\n")
    for r in rows:
        fh.write("| " + " | ".join(x.replace("|", "\\|") for x in r) + " |\n")
print(len(rows), "seeds summarised")
