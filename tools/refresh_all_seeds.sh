#!/bin/sh
# Re-evaluates every stored seeded change against the current machinery (applies each patch to
# /repo, runs the listed checks, restores /repo) and rewrites seeded/<id>/meta.json + SUMMARY.md.
# Needs the agents' scratch worktrees only for nothing: it works from /verif/seeded/*/patch.diff.
cd "$(dirname "$0")/.."
python3-vt - <<'PY'
import json, glob, os, subprocess, time
VERIF = os.getcwd()
def sh(c): return subprocess.run(c, shell=True, capture_output=True, text=True)
assert sh("git -C /repo status --porcelain").stdout.strip() == "", "/repo not clean"
for f in sorted(glob.glob("seeded/*/meta.json")):
    m = json.load(open(f)); d = os.path.dirname(f)
    props = list(m["checks"].keys())
    ap = sh(f"git -C /repo apply {VERIF}/{d}/patch.diff")
    if ap.returncode != 0:
        print(m["seed_id"], "PATCH-DOES-NOT-APPLY"); continue
    try:
        tests = sh("cd /repo && /venv/bin/python -m pytest -q -p no:cacheprovider 2>&1 | tail -1").stdout.strip()
        demo_with = sh(f"cd /repo && PYTHONPATH=/repo/src /venv/bin/python {VERIF}/{d}/demo.py").returncode
        res = {}
        for q in props:
            t0 = time.time()
            r = sh(f"cd {VERIF} && PYVC_NO_EVIDENCE=1 timeout 3000 ./check {q}")
            lines = r.stdout.splitlines()
            res[q] = {"exit": r.returncode, "seconds": round(time.time()-t0, 1),
                      "violations": len([l for l in lines if l.startswith("VIOLATION")]),
                      "reproduced_on_real_code": len([l for l in lines if l.startswith("VIOLATION") and "no-failing-input-found" not in l]),
                      "undecided": [l[:200] for l in lines if l.startswith("UNDECIDED")][:4],
                      "failed_obligations": [l.strip()[len("failed obligation: "):][:200] for l in lines if l.strip().startswith("failed obligation")][:6],
                      "summary": lines[-1][:220] if lines else ""}
    finally:
        sh("git -C /repo checkout -- .")
    demo_clean = sh(f"cd /repo && PYTHONPATH=/repo/src /venv/bin/python {VERIF}/{d}/demo.py").returncode
    m["checks"] = res
    m["detected_by"] = sorted(q for q, r in res.items() if r["exit"] == 1)
    m["confirmed"] = {"existing_test_suite_with_change": tests, "demo_exit_with_change": demo_with,
                      "demo_exit_on_clean_tree": demo_clean,
                      "all_confirmed": ("passed" in tests and "failed" not in tests and demo_with != 0 and demo_clean == 0)}
    json.dump(m, open(f, "w"), indent=1)
    print(m["seed_id"], {q: (r["exit"], r["violations"], r["reproduced_on_real_code"]) for q, r in res.items()}, flush=True)
assert sh("git -C /repo status --porcelain").stdout.strip() == "", "/repo not restored"
PY
python3-vt tools/seed_summary.py
