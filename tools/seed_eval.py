#!/usr/bin/env python3
"""tools/seed_eval.py <PROPERTY> <i> <seed-id> [other properties to run ...]

Confirms an independently written breaking change (from /tmp/seed_<PROPERTY>/out/) in its
scratch worktree, runs the registered checks against it applied to /repo (git apply ... git
checkout -- .), and stores it under /verif/seeded/<seed-id>/ with a meta.json describing what
was run and what was observed.  /repo is left clean."""
import json, os, shutil, subprocess, sys, time

VERIF = os.path.dirname(os.path.dirname(os.path.abspath(__file__)))


def sh(cmd, **kw):
    return subprocess.run(cmd, shell=True, capture_output=True, text=True, **kw)


def main():
    prop, i, sid = sys.argv[1], sys.argv[2], sys.argv[3]
    others = sys.argv[4:]
    w = os.environ.get("SEED_DIR_PREFIX", "/tmp/seed_") + prop
    out = f"{w}/out"
    diff, demo, notes = f"{out}/change{i}.diff", f"{out}/demo{i}.py", f"{out}/notes{i}.txt"
    assert os.path.exists(diff) and os.path.exists(demo), "seed files missing"
    # 1. confirmation in the scratch worktree
    sh(f"git -C {w} checkout -q -- .")
    ap = sh(f"git -C {w} apply {diff}")
    assert ap.returncode == 0, ap.stderr
    tests = sh(f"cd {w} && /venv/bin/python -m pytest -q -p no:cacheprovider 2>&1 | tail -1").stdout.strip()
    with_change = sh(f"cd {w} && PYTHONPATH={w}/src /venv/bin/python {demo}")
    sh(f"git -C {w} checkout -q -- .")
    without = sh(f"cd {w} && PYTHONPATH={w}/src /venv/bin/python {demo}")
    confirmed = ("passed" in tests and "failed" not in tests and with_change.returncode != 0 and without.returncode == 0)
    # 2. the registered checks against /repo with the change applied
    assert sh("git -C /repo status --porcelain").stdout.strip() == "", "/repo is not clean"
    results = {}
    try:
        ap = sh(f"git -C /repo apply {diff}")
        assert ap.returncode == 0, ap.stderr
        for q in [prop] + others:
            t0 = time.time()
            r = sh(f"cd {VERIF} && PYVC_NO_EVIDENCE=1 timeout 3000 ./check {q}")
            lines = r.stdout.splitlines()
            results[q] = {
                "exit": r.returncode, "seconds": round(time.time() - t0, 1),
                "violations": len([l for l in lines if l.startswith("VIOLATION")]),
                "reproduced_on_real_code": len([l for l in lines if l.startswith("VIOLATION") and "no-failing-input-found" not in l]),
                "undecided": [l[:200] for l in lines if l.startswith("UNDECIDED")][:4],
                "failed_obligations": [l.strip()[len("failed obligation: "):][:200] for l in lines if l.strip().startswith("failed obligation")][:6],
                "summary": lines[-1][:220] if lines else "",
            }
    finally:
        sh("git -C /repo checkout -- .")
    assert sh("git -C /repo status --porcelain").stdout.strip() == "", "/repo not restored"
    # 3. store
    dst = os.path.join(VERIF, "seeded", sid)
    os.makedirs(dst, exist_ok=True)
    shutil.copy(diff, os.path.join(dst, "patch.diff"))
    shutil.copy(demo, os.path.join(dst, "demo.py"))
    meta = {
        "seed_id": sid, "breaks_property": prop,
        "origin": "written by an independent sub-agent that was given only the property text and a scratch worktree of the repository",
        "what_it_needs_to_manifest": open(notes).read().strip() if os.path.exists(notes) else "",
        "confirmed": {"existing_test_suite_with_change": tests, "demo_exit_with_change": with_change.returncode,
                      "demo_exit_on_clean_tree": without.returncode, "all_confirmed": confirmed},
        "what_was_run": [f"cd {w} && git apply out/change{i}.diff && /venv/bin/python -m pytest -q -p no:cacheprovider; PYTHONPATH=src /venv/bin/python out/demo{i}.py; git checkout -- .; PYTHONPATH=src /venv/bin/python out/demo{i}.py"]
                        + [f"git -C /repo apply seeded/{sid}/patch.diff && ./check {q}; git -C /repo checkout -- ." for q in [prop] + others],
        "checks": results,
        "detected_by": sorted(q for q, r in results.items() if r["exit"] == 1),
    }
    json.dump(meta, open(os.path.join(dst, "meta.json"), "w"), indent=1)
    print(sid, "confirmed" if confirmed else "NOT-CONFIRMED", {q: (r["exit"], r["violations"], r["reproduced_on_real_code"]) for q, r in results.items()})


if __name__ == "__main__":
    main()
