#!/bin/sh
# tools/try_benign.sh <i> <j> <properties...> : behaviour-preserving refactor j of agent i; every check must stay exit 0
I="$1"; J="$2"; shift 2
W=/tmp/benign_$I
cd $W && git checkout -q -- . && git apply out/refactor$J.diff || { echo APPLY-FAILED; exit 2; }
T=$(cd $W && /venv/bin/python -m pytest -q -p no:cacheprovider 2>&1 | tail -1)
echo "tests: $T"
cd /verif
for Q in "$@"; do
  PYVC_REPO_SRC=$W/src PYVC_NO_EVIDENCE=1 ./check $Q > /tmp/benign_check_$Q.txt 2>&1; C=$?
  echo "check $Q exit=$C"
  grep -E "^(VIOLATION|UNDECIDED|ENGINE)" /tmp/benign_check_$Q.txt | cut -c1-230 | sort | uniq | head -5
  grep -E "^  failed" /tmp/benign_check_$Q.txt | cut -c1-230 | head -3
done
git -C $W checkout -q -- .
