#!/usr/bin/env python3
"""Regenerates MANIFEST.json from the table below (kept in one place so that the claimed
level / technique texts stay consistent with DESIGN.md)."""
import json, os
HERE = os.path.dirname(os.path.dirname(os.path.abspath(__file__)))

COMMON_NOTE = ("Trusted base: the pyvc AST->VC generator and its stated Python-subset semantics (DESIGN §2.2), the builtin contracts "
               "for math / ** / dict / hash (pyvc/builtin_contracts.py), the spec tables written from the property statements (pyvc/spec.py), "
               "ground instances of real-analysis facts about exp/ln/sin/cos/ipow/root (pyvc/axioms.py), z3 5.1 / cvc5 1.4. Floats are read as "
               "mathematical reals (rounding, overflow, underflow are outside the proof). Closed world (15 expression classes, no monkey-patching). "
               "Add/Multiply: __init__, _reset_evaluation_cache, _evaluate, at, __eq__, __hash__, __repr__, all four derivative methods (both classes), "
               "the helpers math_functions.multiply / utilities.list_without_entry_at / list_with_updated_entry_at / partition_by_predicate / "
               "first_match_by_predicate, eight of the twelve n-ary rewrite rules, the n-ary step driver and both _normalize_fully_reduced passes are proved for a "
               "symbolic arity (G-mode, unbounded; an undischarged symbolic-arity obligation is a NOTE, never a violation); the other Add/Multiply "
               "obligations (the four group-by-key consolidation rules) are proved per arity 0..K (K=3 quick, 4 thorough, extended past any arity threshold the code "
               "compares a length against; nested n-ary children 0..2/3) and are reported as bounded-arity, never counted under `discharged`.")
TECH = ("contract-based deductive verification: verification conditions generated on every run from the AST of the real functions in /repo/src "
        "(per concrete class, children replaced by their contracts = structural induction), discharged by z3/cvc5; counter-models replayed on the real code")

CLAIMS = {
 "C01": ("proof", "Post-condition `returns r => r = V(e,p)` of _evaluate and Expression.at (Point and bare number) proved for each of the 15 classes with arbitrary children, all points, all n / base; leaf contracts of all math_functions. Unbounded in depth, points and parameters.", "§5 C01"),
 "C02": ("proof", "`raises DomainError <=> not D(e,p)` on _evaluate / at per class (eagerness included: the offending child's contract raises before any shortcut), plus every builtin precondition (division, real power, log, sqrt) proved on every path: a violated precondition is exactly a NaN / complex / ZeroDivisionError escape.", "§5 C02"),
 "C03": ("proof", "Post-condition `returns r => r = dV(e,x,p)` of _numeric_partial per class and of Partial.at / Derivative.at (late, Point or number, variable as object or name); absent-variable lemma per class.", "§5 C03"),
 "C04": ("proof", "Accumulator post-condition of _compute_numeric_partials per class (`acc'.get(k,0) = acc.get(k,0) + m*dV(k)` for an arbitrary name k, hence for all names at once), Expression._numeric_partials, LocatedDifferential and Differential.at (late).", "§5 C04"),
 "C05": ("proof", "_synthetic_partial and _compute_synthetic_partials per class return trees that denote the true partial wherever the original is defined and mention no new variable; as_expression() of Partial / Derivative / Differential (early and late) = that composed with _normalize, whose Refines contract is proved by the C08 obligations (imported here). The known C08 finding (D2) is reported as KNOWN-FINDING.", "§5 C05"),
 "C07": ("proof", "`raises DomainError <=> not D(e,p)` on every numeric derivative route: _numeric_partial and _compute_numeric_partials per class, Partial/Derivative/Differential/LocatedDifferential late, and the early / switched routes through the stored symbolic partial (C05 o C08 obligations imported).", "§5 C07"),
 "C08": ("proof", "Refines(self, result) (defined wherever the input is, same value) proved for each of the 46 _reduce_* rules with arbitrary sub-expressions in the pattern holes and symbolic n, m, base (adaptive sign/parity case split), for the step drivers against the rules' contracts, for constant folding, both normal-form passes, _fully_reduce (loop invariant, also on the give-up exit) and _normalize.", "§5 C08"),
 "C12": ("proof", "__eq__ of every expression class returns exactly structural equality (an algebraic datatype term equality: same constructor, pairwise equal arguments in order, numerically equal parameters), never raises on foreign operands; `equal => equal hashes` per class with hash() uninterpreted; Point, Partial, Derivative, Differential, LocatedDifferential likewise. Reflexivity / symmetry / transitivity are those of datatype equality.", "§5 C12"),
 "C13": ("proof", "__repr__/__str__ of every class print a constructor call that is parsed and bound to the real constructor signature: own class name and arguments that denote exactly the object's fields (so eval(print) == object, and unequal objects print differently); Point and the four wrappers likewise.", "§5 C13"),
 "C14": ("proof", "Constructors store Vars(e) = union of the children's; evaluation returns only if the point supplies Vars(e) and raises CoordinateMissing only if it does not (per class, every route); bare numbers accepted exactly for <= 1 variable; Derivative likewise; Point.coordinate and point_on_number_line contracts; Variable accepts exactly non-empty word-character names (regex literal checked).", "§5 C14"),
 "C15": ("proof", "Straight-line post-conditions of the six operator dunders over a tagged union of operands: the result is the named constructor applied to the very operand objects in order; ** forks on the exponent kind; non-expressions / non-integral / non-positive exponents are rejected; no reflected operators exist.", "§5 C15"),
 "C16": ("proof", "Constructor contracts of all 15 classes over tagged-union arguments: accepted <=> well-formed, parameters reported back (n as the integer), Vars and memo fields initialised.", "§5 C16"),

 "C06": ("proof", "Each route's contract (returns the true partial / raises DomainError exactly where the expression is undefined) is proved for Partial, Derivative, Differential.component(.).at, component_at, at(.).component and LocatedDifferential, early, late and after as_expression() switched a late object, variable given as object or name; agreement of any two routes is the logical corollary (proved as a lemma); Differential.component builds the Partial of the same expression and variable, Differential.at the LocatedDifferential of the same expression and point; early and late as_expression() perform the same calls on the same immutable arguments. Imports the C05/C08 obligations (known finding D2 reported).", "§5 C06"),
 "C09": ("proof", "Memo-coherence protocol: every method that reads the memo requires Coherent(self,p) and re-establishes it (proved per class, all outcomes); _reset_evaluation_cache clears every reachable memo; every public entry (at, _numeric_partials, Partial/Derivative/Differential/LocatedDifferential queries, constant folding) is proved with NOTHING assumed about memo state, so its answer is a function of (structure, point); two-step histories on one object and on roots sharing a child, including failing first calls; flags are set only on rule-free / undefined-variable-free nodes; structural readers and symbolic methods do not read the memo (frame analysis). Imports C08 (known finding D2 seen through the as_expression path switch).", "§5 C09"),
 "C10": ("proof", "Frame conditions decided for every function of the package by an AST frame / escape analysis (every attribute store, every mutating container operation, every container stored at construction, every structural reader is an enumerated obligation), cross-checked by the heap log of the symbolic executor on every explored path of every family.", "§5 C10"),
 "C17": ("proof", "Union of the safety obligations of every public route: each builtin precondition (division, power, log, sqrt, round, gcd, unpack, subscript) proved on each path; every reachable raise is DomainError or CoordinateMissing; constructor preconditions inside rules and symbolic partials proved; abstract methods overridden in every concrete class.", "§5 C17"),
 "C18": ("other", "Static non-interference: every syntactic use of an unordered collection (sets of variable names, dicts filled from them), every hash()/id() call and every module/class-level binding is classified against an allow-list (fail-closed); the symbolic executor enforces the same discipline (a set supports only truthiness, len, membership, union, guarded singleton unpack and for-each-insert loops); Point hashing goes through sorted(items) (proved order independent in C12).", "§5 C18"),
}

NOT_APPLICABLE = {
 "C11": "termination / acyclicity / quadratic step bound of whole rewrite sequences: needs one well-founded measure over all 46 rules that also yields the step bounds; no per-function contract within reach decides it (DESIGN §8). A bounded enumeration of small trees would be a different technique family.",
}
PENDING = "not claimed in this revision: the obligation families for this property are still under construction (DESIGN §5); no check is registered rather than a partial one"


def main():
    m = {"version": 1, "setup_cmd": "./setup.sh",
         "hooks": {"guard": "SMOOTHMATH_VERIF",
                   "enable": "none needed: the verifier reads the source text of /repo/src on every run; nothing is compiled in or instrumented",
                   "baseline_off_cmd": "cd /repo && /venv/bin/python -m pytest -ra -q -p no:cacheprovider --timeout=900",
                   "source_commits": [], "add_only": True},
         "engines": [{"name": "pyvc", "path": "pyvc/", "serves_properties": sorted(CLAIMS),
                      "kind_free_text": "own verification-condition generator: symbolic execution of the real Python AST against sidecar contracts, z3 / cvc5 back ends, counter-model replay on the real code"}],
         "checks": [], "not_applicable": [],
         "notes": "Known findings and fixed defects: known_findings.json. Three genuine defects were repaired in /repo with `fix:` commits (Power base-one shortcut; NthRoot repr; Point coordinate named self); one (NthRoot-of-NthPower rewrite) is recorded as a known finding because the test-suite pins it. Engine self-tests: ./check selftest (73 stored mutants), ./check benign (20 behaviour-preserving refactorings), seeded/SUMMARY.md (92 independently written breaking changes in six waves: 91 caught by some check - the exception is a pure floating-point rounding effect -, 89 by the check of their own property; per-seed results in seeded/SUMMARY.md), ./check lemmas (Lean, 84 theorems), ./check speccheck."}
    all_ids = [f"C{i:02d}" for i in range(1, 19)]
    for pid in all_ids:
        if pid in CLAIMS:
            cat, text, ref = CLAIMS[pid]
            m["checks"].append({
                "property_id": pid, "quick_cmd": f"./check {pid} --tier quick", "thorough_cmd": f"./check {pid} --tier thorough",
                "evidence_file": f"evidence/{pid}.json", "replay_cmd_template": "./check replay {path}", "engine": "pyvc",
                "level_claimed": {"category": cat, "text": text, "design_ref": ref},
                "level_note": COMMON_NOTE if cat == "proof" else OTHER_NOTE.get(pid, COMMON_NOTE),
                "technique": TECH if pid not in TECH_OVERRIDE else TECH_OVERRIDE[pid]})
        else:
            m["not_applicable"].append({"property_id": pid, "reason": NOT_APPLICABLE.get(pid, PENDING)})
    with open(os.path.join(HERE, "MANIFEST.json"), "w") as fh:
        json.dump(m, fh, indent=1)


OTHER_NOTE = {"C18": "Trusted: the kind inference of pyvc/order.py (set-kinded expressions are recognised syntactically: set displays, set()/union calls, the _variable_names field, parameters annotated set/Iterable or named variable_names; unknown contexts fail closed), libm determinism, CPython's insertion-ordered dicts. The check is a static analysis over the real AST, not an SMT proof, hence level `other`."}
TECH_OVERRIDE = {"C18": "order-independence obligations at every use of an unordered collection, enumerated from the real AST on every run and decided by a flow analysis (allow-list, fail-closed); replay: hash-seed / spelling-order battery on the real code",
                 "C10": "frame / ownership conditions enumerated from the real AST of every function on every run (attribute stores, container mutations, constructor aliasing, structural readers), plus the executor's heap log on every explored path"}

if __name__ == "__main__":
    main()
