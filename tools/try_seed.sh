#!/bin/sh
# tools/try_seed.sh <PROPERTY> <i> [scratch|repo] [extra properties...]
# 1. confirms the seeded change in its scratch worktree /tmp/seed_<P>: test-suite passes with
#    it, the demo fails with it and passes without it
# 2. runs ./check <P> against it (scratch: PYVC_REPO_SRC points at the patched worktree;
#    repo: git -C /repo apply, run, git -C /repo checkout -- .)
P="$1"; I="$2"; MODE="${3:-scratch}"; shift 3 2>/dev/null
W=/tmp/seed_$P
D=$W/out/change$I.diff
[ -f "$D" ] || { echo "no $D"; exit 2; }
cd $W && git checkout -q -- . && git apply "$D" || { echo "APPLY-FAILED"; exit 2; }
T=$(cd $W && /venv/bin/python -m pytest -q -p no:cacheprovider 2>&1 | tail -1)
PYTHONPATH=$W/src /venv/bin/python $W/out/demo$I.py > /tmp/seed_demo_with.txt 2>&1; DW=$?
git checkout -q -- .
PYTHONPATH=$W/src /venv/bin/python $W/out/demo$I.py > /tmp/seed_demo_without.txt 2>&1; DO=$?
echo "tests-with-change: $T | demo-with-change exit=$DW | demo-on-clean exit=$DO"
cd /verif
for Q in $P "$@"; do
  if [ "$MODE" = "repo" ]; then
    git -C /repo apply "$D" && PYVC_NO_EVIDENCE=1 ./check $Q > /tmp/seed_check_$Q.txt 2>&1; C=$?
    git -C /repo checkout -- .
  else
    cd $W && git apply "$D" && cd /verif
    PYVC_REPO_SRC=$W/src PYVC_NO_EVIDENCE=1 ./check $Q > /tmp/seed_check_$Q.txt 2>&1; C=$?
    git -C $W checkout -q -- .
  fi
  echo "check $Q exit=$C"
  grep -E "^(VIOLATION|UNDECIDED|ENGINE)" /tmp/seed_check_$Q.txt | cut -c1-230 | head -4
  grep -E "^  failed" /tmp/seed_check_$Q.txt | cut -c1-230 | head -4
  tail -1 /tmp/seed_check_$Q.txt | cut -c1-200
done
