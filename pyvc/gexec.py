"""Executor support for lists of symbolic length (G-mode): comprehensions, loops and builtins
over an SList.  Only element-wise shapes are supported (each is checked syntactically); anything
else is `Unsupported` (the function then stays in K-mode only)."""
from __future__ import annotations
import ast
import z3
from . import sym, spec, gmode
from .gmode import SList, StarArgs, qm, IDX
from .values import *

EVAL_LIKE = {"_evaluate": True, "_numeric_partial": False}       # method -> returns imply S?


def _unsupported(msg):
    from .interp import Unsupported
    raise Unsupported("G-mode: " + msg)


def _body_is_method_call_on(node, var):
    """`var.method(args...)` with arguments that do not mention var -> (method, arg nodes)."""
    if isinstance(node, ast.Call) and isinstance(node.func, ast.Attribute) and isinstance(node.func.value, ast.Name) \
            and node.func.value.id == var and not node.keywords:
        for a in node.args:
            if any(isinstance(x, ast.Name) and x.id == var for x in ast.walk(a)):
                return None
        return node.func.attr, node.args
    return None


def comprehension(I, node, env, sl, elt_fn):
    """[elt for target in sl] / (elt for target in sl) over an SList."""
    if len(node.generators) == 1 and len(node.generators[0].ifs) == 1 and isinstance(node.generators[0].target, ast.Name) \
            and isinstance(node.elt, ast.Name) and node.elt.id == node.generators[0].target.id and sl.family is not None \
            and _is_child_predicate(node.generators[0].ifs[0], node.elt.id):
        return filter_list(I, sl, node.generators[0].ifs[0], env, node.elt.id)
    if len(node.generators) != 1 or node.generators[0].ifs:
        _unsupported("comprehension with several generators or conditions over a symbolic-length list")
    g = node.generators[0]
    elt = node.elt
    # element-wise evaluation-like contract call: [inner._evaluate(point) for inner in inners]
    if isinstance(g.target, ast.Name):
        mc = _body_is_method_call_on(elt, g.target.id)
        if mc and mc[0] in EVAL_LIKE and sl.family is not None:
            args = [I.eval(a, env) for a in mc[1]]
            return map_eval_like(I, sl, mc[0], args)
    if isinstance(g.target, ast.Name) and sl.family is not None and _is_child_predicate(elt, g.target.id):
        # (isinstance(inner, C) and inner.value == 0 for inner in children): a list of formulas
        fam = sl.family
        return SList(sl.length, lambda t: child_predicate(I, elt, env, g.target.id, fam, t), f"pred({sl.tag})")
    fo = getattr(sl, "filter_of", None)
    if fo is not None and isinstance(g.target, ast.Name) and isinstance(elt, ast.Attribute) and isinstance(elt.value, ast.Name) \
            and elt.value.id == g.target.id and elt.attr == "_inner":
        # (negation._inner for negation in negations): the operands of filtered unary children
        if getattr(sl, "guard_class", None) not in ("Negation", "Reciprocal", "Sine", "Cosine"):
            _unsupported("_inner of the elements of a list not known to be plain unary nodes")
        whole, sigma, _p = fo
        inner = whole.family.inner_family(I)
        r = SList(sl.length, lambda u: inner.child(I, sigma(u)), f"inner({sl.tag})")
        r.all_expr = True
        r.inner_of = sl
        return r
    if fo is not None and isinstance(g.target, ast.Name) and isinstance(elt, ast.Attribute) and isinstance(elt.value, ast.Name) \
            and elt.value.id == g.target.id and elt.attr in CHILD_ATTRS:
        # (constant.value for constant in constants): every element is of the guarding class
        owner = CHILD_ATTRS[elt.attr]
        if getattr(sl, "guard_class", None) not in ((owner,) if isinstance(owner, str) else owner):
            _unsupported(f"attribute {elt.attr} of the elements of a list not known to be of a class that has it")
        whole, sigma, _p = fo
        f = whole.family.attr_func(elt.attr)
        isint = elt.attr == "n"
        return SList(sl.length, lambda u: SNum(f(sigma(u)), isint if isint else z3.Bool(f"{elt.attr}_is_int[{sl.tag}]")), f"{elt.attr}({sl.tag})")
    pre = _single_child_call(elt, g.target)
    if pre is not None and sl.family is not None:
        # e.g. mf.multiply(inner._numeric_partial(name, point), *others) for (i, inner) in enumerate(inners):
        # the child calls are made for the whole family first (each may raise), then the
        # element function is the pure remainder with the call replaced by its result
        call, var, method = pre
        args = [I.eval(a, env) for a in call.args]
        results = map_eval_like(I, sl, method, args)
        return lazy_map(I, node, env, sl, None, replaced=(call, results))
    return lazy_map(I, node, env, sl, elt_fn)


def helper_partition(I, fd, args):
    """utilities.partition_by_predicate(children, predicate) -> (those that satisfy it, the others),
    both in order.  The predicate must be a closure whose body is a child predicate."""
    sl, pred = args
    from .values import Closure
    if not (isinstance(pred, Closure) and pred.node is not None and isinstance(pred.node, ast.Lambda)
            and len(pred.node.args.args) == 1 and _is_child_predicate(pred.node.body, pred.node.args.args[0].arg)):
        _unsupported("partition_by_predicate with a predicate that is not a class / parameter test of the element")
    var = pred.node.args.args[0].arg
    hits = filter_list(I, sl, pred.node.body, pred.env, var)
    misses = filter_list(I, sl, ast.UnaryOp(op=ast.Not(), operand=pred.node.body), pred.env, var)
    hits.partition_twin, misses.partition_twin = misses, hits
    I.path.assume(hits.length + misses.length == sl.length)
    partition_lemmas(I, sl, hits, misses)
    return (hits, misses)


def partition_lemmas(I, whole, hits, misses):
    """Sum and product of the values over a list split by a predicate (ax_bigsum_partition,
    ax_bigprod_partition); for hits that are Negation / Reciprocal nodes additionally the sum /
    product over their operands (ax_bigsum_neg, ax_bigprod_neg, ax_bigprod_inv)."""
    if gmode.keying():
        return
    fam = whole.family
    sh, sm = hits.filter_of[1], misses.filter_of[1]
    q = qm(I)
    for pt in list(I.ghost.get("points", {}).values()):
        V = lambda t: spec.den(I, fam.child(I, t), pt).V
        kinds = ((gmode.bigsum, lambda a, b: a + b), (gmode.bigprod, lambda a, b: a * b))
        # (only the operator of the node under verification is needed)
        owner = getattr(getattr(I.ghost.get("self"), "cls", None), "name", None)
        if owner == "Add":
            kinds = kinds[:1]
        elif owner == "Multiply":
            kinds = kinds[1:]
        for big, comb in kinds:
            q.links.append(big(I, V, whole.length) == comb(big(I, lambda u: V(sh(u)), hits.length), big(I, lambda u: V(sm(u)), misses.length)))
        if hits.guard_class in ("Negation", "Reciprocal"):
            inner = fam.inner_family(I)
            Vin = lambda u: spec.den(I, inner.child(I, sh(u)), pt).V
            c = hits.length
            if hits.guard_class == "Negation":
                if owner != "Multiply":
                    q.links.append(gmode.bigsum(I, lambda u: -Vin(u), c) == -gmode.bigsum(I, Vin, c))
                if owner != "Add":
                    q.links.append(gmode.bigprod(I, lambda u: -Vin(u), c) == z3.If(c % 2 == 0, 1, -1) * gmode.bigprod(I, Vin, c))
            elif owner != "Add":
                # prod (1 / x_u) = 1 / prod x_u  when no x_u is 0 (skolem witness otherwise)
                w = z3.Int(I.path.fresh_name("w!zero-operand"))
                q.add_index(w, c)
                P = gmode.bigprod(I, Vin, c)
                q.links.append(z3.Or(z3.And(w >= 0, w < c, Vin(w) == 0),
                                     z3.And(P != 0, gmode.bigprod(I, lambda u: 1 / Vin(u), c) == 1 / P)))
                # the same in product form, over the reciprocal nodes themselves: (prod of the
                # nodes) * (prod of their operands) = 1 when every one of them is defined
                w2 = z3.Int(I.path.fresh_name("w!undefined-reciprocal"))
                q.add_index(w2, c)
                Dh = lambda u: spec.den(I, fam.child(I, sh(u)), pt).D
                q.links.append(z3.Or(z3.And(w2 >= 0, w2 < c, z3.Not(Dh(w2))),
                                     gmode.bigprod(I, lambda u: V(sh(u)), c) * P == 1))


def filter_list(I, sl, cond, env, var):
    """[c for c in children if P(c)]: the sub-list of the children that satisfy P, in order.
    Abstractly: a length c <= k and an index map sigma: [0,c) -> [0,k) with P(sigma(u)); what is
    known about sums / products over it is the filter lemma (see spec._gmode_den)."""
    fam = sl.family
    tag = I.path.fresh_name(f"filter({sl.tag})")
    c = z3.Int(f"{tag}.len")
    sigma = z3.Function(f"{tag}.index", sym.I, sym.I)
    pred = lambda t: child_predicate(I, cond, env, var, fam, t)
    I.path.assume(z3.And(c >= 0, c <= sl.length))
    q = qm(I)
    q.foralls.append((c, lambda u: z3.And(sigma(u) >= 0, sigma(u) < sl.length, pred(sigma(u)))))
    # nothing was dropped iff everything satisfies P
    q.links.append((c == sl.length) == gmode.forall_const(I, sl.length, pred, f"all-kept({tag})"))
    guard = None
    if isinstance(cond, ast.Call):
        guard = getattr(getattr(I.eval(cond.args[1], env), "cls", None), "name", None)
    if guard in ("Negation", "Reciprocal", "Sine", "Cosine"):
        # every element is a <guard> node: hand it out as one (its operand is inner(sigma(u)))
        fam.unary_refinement_facts(I, guard)
        inner = fam.inner_family(I)
        cache = {}

        def elem(u):
            t = sigma(u)
            if t.get_id() not in cache:
                o = Obj(I.prog.classes[guard], f"{fam.name}[{t}]")
                o.fields["_inner"] = inner.child(I, t)
                o.fields["_value"] = None
                o.ghost["viewed_child"] = fam.child(I, t)
                cache[t.get_id()] = o
            return cache[t.get_id()]
    else:
        elem = lambda u: sl.elem(sigma(u))
    r = SList(c, elem, tag, family=None)
    r.all_expr = getattr(sl, "all_expr", False)
    r.filter_of = (sl, sigma, pred)
    r.guard_class = guard
    return r


CHILD_ATTRS = {"value": "Constant", "n": ("NthPower", "NthRoot"), "base": ("Exponential", "Logarithm")}


def _is_child_predicate(node, var):
    """isinstance(var, C) | isinstance(var, C) and <comparison of var.attr with something not
    mentioning var> | not <predicate> | <predicate> or/and <predicate>."""
    if isinstance(node, ast.UnaryOp) and isinstance(node.op, ast.Not):
        return _is_child_predicate(node.operand, var)
    if isinstance(node, ast.Call) and isinstance(node.func, ast.Name) and node.func.id == "isinstance" and len(node.args) == 2 \
            and isinstance(node.args[0], ast.Name) and node.args[0].id == var and not node.keywords:
        return True
    if isinstance(node, ast.BoolOp) and isinstance(node.op, ast.And) and len(node.values) == 2 \
            and _is_child_predicate(node.values[0], var) and isinstance(node.values[0], ast.Call):
        c = node.values[1]
        if isinstance(c, ast.Compare) and len(c.ops) == 1 and isinstance(c.left, ast.Attribute) and isinstance(c.left.value, ast.Name) \
                and c.left.value.id == var and c.left.attr in CHILD_ATTRS \
                and not any(isinstance(x, ast.Name) and x.id == var for x in ast.walk(c.comparators[0])):
            return True
        return False
    if isinstance(node, ast.BoolOp) and all(_is_child_predicate(v, var) for v in node.values):
        return True
    return False


def child_predicate(I, node, env, var, fam, t):
    """The formula of a child predicate at index t (no forking, no refinement of the child)."""
    if isinstance(node, ast.UnaryOp):
        return z3.Not(child_predicate(I, node.operand, env, var, fam, t))
    if isinstance(node, ast.Call):
        c = I.eval(node.args[1], env)
        name = getattr(getattr(c, "cls", None), "name", None)
        if name not in sym.CLS:
            _unsupported("isinstance against a class that is not a concrete expression class")
        fam.refinement_facts(I, name)
        return fam.tagF(t) == sym.CLS[name]
    if isinstance(node.op, ast.And) and isinstance(node.values[1], ast.Compare):
        guard = child_predicate(I, node.values[0], env, var, fam, t)
        c = node.values[1]
        owner = CHILD_ATTRS[c.left.attr]
        gname = getattr(getattr(I.eval(node.values[0].args[1], env), "cls", None), "name", None)
        if gname not in ((owner,) if isinstance(owner, str) else owner):
            _unsupported(f"attribute {c.left.attr} read under a guard for another class")
        lhs = fam.attr_func(c.left.attr)(t)
        rhs = I.eval(c.comparators[0], env)
        if not is_num(rhs):
            _unsupported("child attribute compared with a non-number")
        r = real_term(rhs) if lhs.sort() == sym.R else num_term(rhs)
        ops = {ast.Eq: lambda a, b: a == b, ast.NotEq: lambda a, b: a != b, ast.Lt: lambda a, b: a < b,
               ast.LtE: lambda a, b: a <= b, ast.Gt: lambda a, b: a > b, ast.GtE: lambda a, b: a >= b}
        op = ops.get(type(c.ops[0]))
        if op is None:
            _unsupported("comparison operator in a child predicate")
        return z3.And(guard, op(lhs, r))
    parts = [child_predicate(I, v, env, var, fam, t) for v in node.values]
    return z3.And(*parts) if isinstance(node.op, ast.And) else z3.Or(*parts)


def lazy_map(I, node, env, sl, elt_fn, replaced=None):
    """Pure element-wise map: the element function is evaluated at each index on demand.  Only
    shapes that cannot raise and have no effect are accepted."""
    from .interp import Env
    g = node.generators[0]
    elt = node.elt
    if replaced is not None:
        call, results = replaced
        tmp = "__pre_evaluated"
        elt = _ReplaceNode(call, ast.Name(id=tmp, ctx=ast.Load())).visit(_copy_ast(elt, call))
        ast.fix_missing_locations(elt)
        elt_fn = lambda e2: I.eval(elt, e2)
    if not _pure_elementwise(elt):
        _unsupported(f"element expression `{ast.unparse(elt)[:60]}` over a symbolic-length list")
    cache = {}

    def elem(t):
        key = t.get_id()
        if key not in cache:
            e2 = Env(env.module, env, env.funcdef, env.frame_id)
            I.assign(g.target, sl.elem(t), e2)
            if replaced is not None:
                e2.vars["__pre_evaluated"] = replaced[1].elem(t)
            I.ghost["lazy_depth"] = I.ghost.get("lazy_depth", 0) + 1
            try:
                cache[key] = elt_fn(e2)
            finally:
                I.ghost["lazy_depth"] -= 1
        return cache[key]
    r = SList(sl.length, elem, f"map({sl.tag})")
    r.mapped_from = sl
    f = elt.func if isinstance(elt, ast.Call) else None
    r.all_expr = bool(f is not None and ((isinstance(f, ast.Attribute) and (f.attr in PURE_METHODS or f.attr[:1].isupper()))
                                         or (isinstance(f, ast.Name) and f.id[:1].isupper())))
    return r


class _ReplaceNode(ast.NodeTransformer):
    def __init__(self, old, new):
        self.old, self.new = old, new

    def visit(self, node):
        if getattr(node, "_replace_me", False):
            return self.new
        return super().visit(node)


def _copy_ast(elt, call):
    import copy
    call._replace_me = True
    try:
        return copy.deepcopy(elt)
    finally:
        del call._replace_me


def _single_child_call(elt, target):
    """elt contains exactly one call `<var>.<eval-like method>(args not mentioning the loop
    variables)` where <var> is a loop variable -> (call node, var, method)."""
    names = {n.id for n in ast.walk(target) if isinstance(n, ast.Name)}
    found = []
    for n in ast.walk(elt):
        if isinstance(n, ast.Call) and isinstance(n.func, ast.Attribute) and isinstance(n.func.value, ast.Name) \
                and n.func.value.id in names and n.func.attr in EVAL_LIKE and not n.keywords:
            if any(isinstance(x, ast.Name) and x.id in names for a in n.args for x in ast.walk(a)):
                return None
            found.append(n)
    if len(found) != 1 or found[0] is elt:
        return None
    if not isinstance(target, ast.Tuple) or len(target.elts) != 2 or not all(isinstance(e, ast.Name) for e in target.elts) \
            or found[0].func.value.id != target.elts[1].id:
        return None       # the supported loop is `for (i, inner) in enumerate(children)`
    return found[0], found[0].func.value.id, found[0].func.attr


PURE_CALLS = {"str", "repr"}
PURE_METHODS = {"_synthetic_partial", "_normalize"}
PURE_HELPERS = {"multiply", "list_without_entry_at"}      # used through their contracts (HELPER_CONTRACTS)


def _pure_elementwise(elt):
    for n in ast.walk(elt):
        if isinstance(n, ast.Call):
            f = n.func
            if isinstance(f, ast.Name) and (f.id in PURE_CALLS or f.id[:1].isupper()):
                continue            # str(x) / constructor calls on expression operands
            if isinstance(f, ast.Attribute) and (f.attr in PURE_METHODS or f.attr[:1].isupper()):
                continue
            if isinstance(f, ast.Attribute) and f.attr in PURE_HELPERS and isinstance(f.value, ast.Name):
                continue
            return False
        if isinstance(n, (ast.Lambda, ast.ListComp, ast.GeneratorExp, ast.Await, ast.Yield)):
            return False
    return True


def map_eval_like(I, sl, method, args):
    """[c._evaluate(p) for c in children]: either every element returns (then D(i) [and S(i)]
    for every i, values V(i)), or the first failing element w raises (elements before it
    returned)."""
    fam = sl.family
    ct = I.contracts
    pt = ct._point(I, args[-1])
    returns_S = EVAL_LIKE[method]
    name = I.bi.key_term(args[0]) if method == "_numeric_partial" else None
    # memo protocol: every child must be coherent for this point
    st = I.ghost.setdefault("coh_fam", {}).get(fam.name, "unknown")
    ok = st == "allnone" or st == ("coh", id(pt))
    I.path.require(z3.BoolVal(ok), f"memo:{method} requires Coherent({fam.name}[*])", f"memo state of the children is {st}")
    k = sl.length
    dk = lambda t: spec.den(I, fam.child(I, t), pt)
    Sk = lambda t: spec.supplies(I, fam.child(I, t), pt)
    ret = (lambda t: z3.And(dk(t).D, Sk(t))) if returns_S else (lambda t: dk(t).D)
    w = z3.Int(I.path.fresh_name(f"w!{method}({fam.name})"))
    in_range = z3.And(w >= 0, w < k)
    q = qm(I)
    choice = I.path.choose([z3.BoolVal(True), z3.And(in_range, z3.Not(dk(w).D)), z3.And(in_range, z3.Not(Sk(w)))],
                           f"{method}({fam.name}[*])")
    I.ghost.setdefault("coh_fam", {})[fam.name] = ("coh", id(pt))
    ct.after_eval_family(I, fam, pt)
    if choice == 0:
        q.foralls.append((k, ret))
        I.ghost.setdefault("all_returned", []).append((fam.name, method))
        if method == "_evaluate":
            return SList(k, lambda t: SNum(dk(t).V, z3.BoolVal(False)), f"values({fam.name})")
        return SList(k, lambda t: SNum(dk(t).dV(name), z3.BoolVal(False)), f"partials({fam.name})")
    # the elements before the witness returned
    q.add_index(w, k)
    q.foralls.append((w, ret))
    from .interp import Raise
    cls = I.prog.classes["DomainError" if choice == 1 else "CoordinateMissing"]
    raise Raise(I.instantiate(cls, ["(contract)"], {}), f"contract:{method}({fam.name}[{w}])")


# ---------------------------------------------------------------------------- loops

def for_loop(I, sl, st, env):
    """for x in slist: <body>  -- supported shapes:
       * body is one contract call with a family-wide effect (reset of every child, ...)
       * body only checks each element (isinstance ... raise): runs on an arbitrary element
       * loops with a sidecar invariant (pyvc/invariants.py)"""
    from . import invariants
    from .interp import Env, Raise, PathAbort
    key = (I.frames[-1].funcdef.qualname if I.frames and I.frames[-1].funcdef else "?", st.lineno)
    inv = invariants.lookup(I, st)
    if inv is not None:
        return invariants.run_loop(I, sl, st, env, inv)
    if not isinstance(st.target, ast.Name):
        _unsupported("loop target over a symbolic-length list")
    var = st.target.id
    if len(st.body) == 1 and isinstance(st.body[0], ast.Expr):
        mc = _body_is_method_call_on(st.body[0].value, var)
        if mc and mc[0] == "_reset_evaluation_cache" and sl.family is not None:
            I.ghost.setdefault("coh_fam", {})[sl.family.name] = "allnone"
            return True
    # a body without loop-carried effects that may only raise: run it on an arbitrary element
    if _check_only_body(st.body):
        w = z3.Int(I.path.fresh_name(f"w!loop@{st.lineno}"))
        if I.path.branch(z3.Bool(I.path.fresh_name(f"loop@{st.lineno}.some-element-raises")), f"loop-raises@{st.lineno}"):
            I.path.assume(z3.And(w >= 0, w < sl.length))
            qm(I).add_index(w, sl.length)
            e2 = Env(env.module, env, env.funcdef, env.frame_id)
            e2.vars[var] = sl.elem(w)
            I.exec_block(st.body, e2)
            raise PathAbort()
        return True
    _unsupported(f"loop over a symbolic-length list at line {st.lineno} has no supported shape and no invariant")


def _check_only_body(body):
    for stt in body:
        for n in ast.walk(stt):
            if isinstance(n, (ast.Assign, ast.AugAssign, ast.AnnAssign, ast.Return, ast.Delete, ast.For, ast.While)):
                return False
            if isinstance(n, ast.Call):
                f = n.func
                if isinstance(f, ast.Name) and f.id in ("isinstance", "Exception"):
                    continue
                if isinstance(f, ast.Attribute) and f.attr in ("DomainError", "Exception"):
                    continue
                return False
    return True


# ---------------------------------------------------------------------------- builtins

def b_len(I, sl):
    return SNum(sl.length, True)


def b_sum(I, sl, start=0):
    if not (isinstance(start, int) and start == 0):
        _unsupported("sum with a start value over a symbolic-length list")
    return SNum(gmode.bigsum(I, lambda t: real_term(sl.elem(t)), sl.length), z3.Bool(I.path.fresh_name("sum_is_int")))


def copy_list(I, sl):
    r = SList(sl.length, sl.elem, f"copy({sl.tag})", family=sl.family)
    r.all_expr = getattr(sl, "all_expr", False)
    for a in ("filter_of", "guard_class", "partition_twin"):
        if hasattr(sl, a):
            setattr(r, a, getattr(sl, a))
    return r


def union_star(I, base_set, sl):
    """base.union(*sets) with sets an SList of SSet."""
    U = gmode.bigunion(I, sl.length, lambda t: sl.elem(t).term, f"union({sl.tag})")
    return SSet(sym.union(base_set.term, U))


def concat_star(I, extra):
    """Positional arguments of which one is *slist -> the *args tuple as an SList."""
    if len(extra) == 1:
        return extra[0].slist
    stars = [i for i, x in enumerate(extra) if isinstance(x, StarArgs)]
    if len(stars) >= 2 and stars == list(range(len(stars))) and all(isinstance(x, Obj) for x in extra[len(stars):]):
        r = gmode.ConcatList([x.slist for x in extra[:len(stars)]], extra[len(stars):])
        r.all_expr = r.all_expr and all(_is_expression(I, x) for x in extra[len(stars):])
        return r
    if len(stars) == 1 and stars[0] == 0 and all(isinstance(x, Obj) for x in extra[1:]):
        r = gmode.SnocList(extra[0].slist, extra[1:])
        r.all_expr = getattr(extra[0].slist, "all_expr", False) and all(_is_expression(I, x) for x in extra[1:])
        return r
    if len(stars) != 1 or stars[0] != len(extra) - 1:
        _unsupported("a symbolic-length list that is neither the first nor the last positional argument")
    pre, sl = extra[:-1], extra[-1].slist
    if all(isinstance(x, Obj) for x in pre):
        r = gmode.ConsList(pre, sl)
        r.all_expr = getattr(sl, "all_expr", False) and all(_is_expression(I, x) for x in pre)
        return r
    if not all(is_num(x) for x in pre):
        _unsupported("mixed arguments in front of a symbolic-length list")
    n_pre = len(pre)

    def elem(t):
        v = real_term(sl.elem(z3.simplify(t - n_pre)))
        for pos in reversed(range(n_pre)):
            v = z3.If(t == pos, real_term(pre[pos]), v)
        return SNum(v, False)
    return SList(z3.simplify(sl.length + n_pre), elem, f"args({sl.tag})")


def slice_list(I, sl, lo, hi):
    """sl[lo:hi] with (possibly symbolic) integer bounds 0 <= lo, hi within range as decided on the path."""
    lo_t = z3.IntVal(0) if lo is None else num_term(lo)
    hi_t = sl.length if hi is None else num_term(hi)
    # Python clamps; the supported case is 0 <= lo <= len and 0 <= hi <= len (checked on the path)
    I.path.require(z3.And(lo_t >= 0, lo_t <= sl.length, hi_t >= 0, hi_t <= sl.length), "builtin:symbolic-slice-within-range")
    n = z3.simplify(hi_t - lo_t) if I.path.branch(hi_t >= lo_t, "slice-range-not-empty") else z3.IntVal(0)
    r = SList(n, lambda t: sl.elem(z3.simplify(t + lo_t)), f"{sl.tag}[{lo_t}:{hi_t}]")
    r.all_expr = getattr(sl, "all_expr", False)
    return r


def concat(I, a, b):
    """a + b for two symbolic-length lists of numbers."""
    def elem(t):
        x, y = a.elem(t), b.elem(z3.simplify(t - a.length))
        if is_num(x) and is_num(y):
            return SNum(z3.If(t < a.length, real_term(x), real_term(y)), False)
        _unsupported("concatenation of symbolic-length lists of objects")
    return SList(z3.simplify(a.length + b.length), elem, f"({a.tag}+{b.tag})")


def b_enumerate(I, sl):
    return SList(sl.length, lambda t: (RangedIndex(t, sl.length) if not z3.is_int_value(t) else t.as_long(), sl.elem(t)),
                 f"enumerate({sl.tag})", family=sl.family)


# ---------------------------------------------------------------------------- helper contracts
# Helpers that are called with a symbolic-length list are used through their contract; each
# contract is discharged against the helper's real body by its own family (families/gfam.py:
# `math_functions.multiply[any arity]`, `utilities.list_without_entry_at[any length]`).

def helper_multiply(I, fd, args):
    sl = concat_star(I, args) if not (len(args) == 1 and isinstance(args[0], StarArgs)) else args[0].slist
    body = lambda t: real_term(sl.elem(t))
    gmode.register_zero_lemma(I, body, sl.length)
    return SNum(gmode.bigprod(I, body, sl.length), z3.Bool(I.path.fresh_name("product_is_int")) if not gmode.keying() else False)


def helper_list_without_entry_at(I, fd, args):
    entries, i = args
    if isinstance(i, RangedIndex) and z3.simplify(i.length).get_id() == z3.simplify(entries.length).get_id():
        # 0 <= i < len(entries): the list with its i-th entry removed
        j = i.term
        r = SList(z3.simplify(entries.length - 1), lambda u: entries.elem(gmode.shifted_index(u, j)), f"{entries.tag}~{j}")
        r.all_expr = getattr(entries, "all_expr", False)
        r.without_of = (entries, j)
        return r
    _unsupported("list_without_entry_at with an index that is not an enumerate() index of the same list")


def _is_expression(I, x):
    from .structural import is_expr_obj
    return is_expr_obj(x)


def helper_nary_init(I, fd, args):
    """NAryExpression.__init__(self, *args) inside an element function (one node per index of
    an enclosing list): every argument is known to be an expression, so the constructor's
    contract - the post-condition of the `<class>[any arity].__init__` family - is used."""
    o, sl = args[0], concat_star(I, args[1:])
    if not getattr(sl, "all_expr", False):
        _unsupported("constructor call inside an element function with arguments not known to be expressions")
    if isinstance(sl, gmode.ConsList):
        inn = gmode.ConsList(sl.prefix, sl.rest)
    elif isinstance(sl, gmode.SnocList):
        inn = gmode.SnocList(sl.rest, sl.suffix)
    elif isinstance(sl, gmode.ConcatList):
        inn = gmode.ConcatList(sl.parts, sl.suffix)
    elif isinstance(sl, gmode.ReplacedList):
        inn = gmode.ReplacedList(sl.base, sl.j, sl.new)
        inn.all_expr = True
    else:
        inn = SList(sl.length, sl.elem, f"copy({sl.tag})", family=sl.family)
        inn.all_expr = True
    o.fields["_inners"] = inn
    o.fields["_value"] = None
    o.fields["_is_fully_reduced"] = False
    o.fields["_evaluation_failed"] = False
    o.fields["_variable_names"] = SSet(spec.vars_of(I, o))
    return None


def helper_first_match(I, fd, args):
    """utilities.first_match_by_predicate(children, predicate) -> None when no child satisfies the
    predicate, else (i, children[i]) for the first i that does."""
    sl, pred = args
    from .values import Closure
    if not (isinstance(pred, Closure) and pred.node is not None and isinstance(pred.node, ast.Lambda)
            and len(pred.node.args.args) == 1 and _is_child_predicate(pred.node.body, pred.node.args.args[0].arg)):
        _unsupported("first_match_by_predicate with a predicate that is not a class / parameter test of the element")
    var = pred.node.args.args[0].arg
    fam = sl.family
    P = lambda t: child_predicate(I, pred.node.body, pred.env, var, fam, t)
    none = gmode.forall_const(I, sl.length, lambda t: z3.Not(P(t)), f"no-match({sl.tag})")
    if I.path.branch(none, "first-match-is-None"):
        return None
    i = z3.Int(I.path.fresh_name("i!first"))
    I.path.assume(z3.And(i >= 0, i < sl.length, P(i)))
    q = qm(I)
    q.add_index(i, sl.length)
    q.foralls.append((i, lambda t: z3.Not(P(t))))
    split_lemmas(I, sl, i)
    return (RangedIndex(i, sl.length), sl.elem(i))


def split_lemmas(I, whole, i):
    """sum / product over a list = that over the entries before i, entry i, and the entries after i
    (spec/lemmas.lean: ax_bigsum_split_at, ax_bigprod_split_at)."""
    fam = whole.family
    owner = getattr(getattr(I.ghost.get("self"), "cls", None), "name", None)
    for pt in list(I.ghost.get("points", {}).values()):
        V = lambda t: spec.den(I, fam.child(I, t), pt).V
        after = lambda u: V(z3.simplify(u + i + 1))
        n_after = z3.simplify(whole.length - i - 1)
        if owner != "Multiply":
            qm(I).links.append(gmode.bigsum(I, V, whole.length) == gmode.bigsum(I, V, i) + V(i) + gmode.bigsum(I, after, n_after))
        if owner != "Add":
            qm(I).links.append(gmode.bigprod(I, V, whole.length) == gmode.bigprod(I, V, i) * V(i) * gmode.bigprod(I, after, n_after))


def nested_operands(I, o):
    """`child._inners` for a child of a symbolic-arity node that is known to be an Add / Multiply:
    its own operands form a family of their own symbolic length; what the child denotes is the
    sum / product over it (the quantified form of contracts.refine for n-ary classes)."""
    fam, idx = o.ghost["indexed"]
    cache = I.ghost.setdefault("nested_families", {})
    key = (fam.name, idx.get_id())
    if key in cache:
        return cache[key]
    k2 = z3.Int(I.path.fresh_name(f"{o.name}.arity"))
    I.path.assume(k2 >= 0)
    fam2 = gmode.ChildFamily(I, f"{o.name}._inners", k2)
    sl2 = fam2.slist(I)
    q = qm(I)
    is_add, is_mul = fam.tagF(idx) == sym.CLS["Add"], fam.tagF(idx) == sym.CLS["Multiply"]
    U2 = gmode.bigunion(I, k2, lambda u: fam2.varsF(u), f"Vars({o.name})")
    q.links.append(z3.Implies(z3.Or(is_add, is_mul), fam.varsF(idx) == U2))
    for pt in list(I.ghost.get("points", {}).values()):
        d = spec.den(I, o, pt)
        d2 = lambda u: spec.den(I, fam2.child(I, u), pt)
        allD = gmode.forall_const(I, k2, lambda u: d2(u).D, f"D({o.name})")
        q.links.append(z3.Implies(z3.Or(is_add, is_mul), d.D == allD))
        q.links.append(z3.Implies(z3.And(is_add, d.D), d.V == gmode.bigsum(I, lambda u: d2(u).V, k2)))
        q.links.append(z3.Implies(z3.And(is_mul, d.D), d.V == gmode.bigprod(I, lambda u: d2(u).V, k2)))
    cache[key] = sl2
    return sl2


def helper_list_with_updated(I, fd, args):
    entries, i, new = args
    if isinstance(i, RangedIndex) and z3.simplify(i.length).get_id() == z3.simplify(entries.length).get_id():
        r = gmode.ReplacedList(entries, i.term, new)
        r.all_expr = getattr(entries, "all_expr", False) and (not isinstance(new, Obj) or _is_expression(I, new))
        return r
    _unsupported("list_with_updated_entry_at with an index that is not an enumerate() index of the same list")


HELPER_CONTRACTS = {
    "utilities.list_with_updated_entry_at": (helper_list_with_updated, lambda args: len(args) == 3 and isinstance(args[0], SList)),
    "utilities.first_match_by_predicate": (helper_first_match, lambda args: len(args) == 2 and isinstance(args[0], SList) and args[0].family is not None),
    "NAryExpression.__init__": (helper_nary_init, lambda args, I=None: len(args) >= 2 and isinstance(args[0], Obj)
                                and sum(isinstance(x, StarArgs) for x in args) >= 1),
    "utilities.partition_by_predicate": (lambda I, fd, args: helper_partition(I, fd, args),
                                         lambda args: len(args) == 2 and isinstance(args[0], SList) and args[0].family is not None),
    "math_functions.multiply": (helper_multiply, lambda args: any(isinstance(x, StarArgs) for x in args)),
    "utilities.list_without_entry_at": (helper_list_without_entry_at, lambda args: len(args) == 2 and isinstance(args[0], SList)),
}


def helper_contract(I, fd, args, kwargs):
    """The contract result, or NotImplemented when the call is to be executed inline."""
    ent = HELPER_CONTRACTS.get(fd.qualname)
    if ent is None or kwargs or I.ghost.get("inline_helper") == fd.qualname or not ent[1](args):
        return NotImplemented
    if fd.qualname == "NAryExpression.__init__" and not I.ghost.get("lazy_depth") \
            and not (len(args) > 2 and all(isinstance(x, Obj) for x in args[1:-1])) \
            and not (len(args) > 2 and isinstance(args[1], StarArgs) and all(isinstance(x, (Obj, StarArgs)) for x in args[2:])) \
            and not (len(args) == 2 and isinstance(args[1], StarArgs) and isinstance(args[1].slist, gmode.ReplacedList)):
        return NotImplemented         # constructions at statement level run the real constructor
                                      # (except f(a, *rest): its operand list has no element function)
    I.ghost.setdefault("helper_contracts_used", set()).add(fd.qualname)
    return ent[0](I, fd, args)


def b_zip(I, lists):
    if len(lists) != 2 or not all(isinstance(x, SList) for x in lists):
        _unsupported("zip of symbolic-length lists with other iterables")
    a, b = lists
    n = z3.simplify(z3.If(a.length <= b.length, a.length, b.length))
    return SList(n, lambda t: (a.elem(t), b.elem(t)), f"zip({a.tag},{b.tag})")


def b_any(I, sl):
    """any(...) over a symbolic-length list of booleans: not (forall i. not elem(i))."""
    def neg(t):
        e = sl.elem(t)
        if isinstance(e, bool):
            return z3.BoolVal(not e)
        return z3.Not(e)
    return z3.Not(gmode.forall_const(I, sl.length, neg, f"none({sl.tag})"))


def b_all(I, sl):
    def pos(t):
        e = sl.elem(t)
        return z3.BoolVal(e) if isinstance(e, bool) else e
    return gmode.forall_const(I, sl.length, pos, f"all({sl.tag})")


def join(I, sep, sl):
    return SStr([("joined", sep, sl)])
