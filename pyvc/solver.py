"""Discharging obligations: z3 first, cvc5 (Python API, on the SMT-LIB dump) for unknowns."""
from __future__ import annotations
import time
import z3
from . import axioms, sym

DEFAULT_TIMEOUT_MS = 30000


class Verdict:
    def __init__(self, status, seconds, backend, model=None, n_instances=0, reason=""):
        self.status = status          # 'proved' | 'failed' | 'unknown'
        self.seconds = seconds
        self.backend = backend
        self.model = model
        self.n_instances = n_instances
        self.reason = reason


def _mk_solver(timeout_ms, seed):
    s = z3.Solver()
    s.set("timeout", timeout_ms)
    if seed:
        s.set("random_seed", seed)
    return s


def prove(assumptions, goal, timeout_ms=DEFAULT_TIMEOUT_MS, seed=0, use_cvc5=True, extra=(), portfolio=True):
    """Is  /\\ assumptions => goal  valid (given the ground real-analysis instances)?"""
    t0 = time.time()
    neg = z3.Not(goal)
    fs = [f for f in assumptions if not z3.is_true(f)] + [neg] + list(extra)
    fs = propagate_constants(fs)
    inst = axioms.instantiate(fs)
    # portfolio: z3 default (3 s) -> nlsat tactic (decides polynomial identities, also through
    # uninterpreted terms, in ms-seconds where the default solver times out) -> z3 default
    # (10 s) -> cvc5 -> z3 default (full budget, other seed)
    def nlsat(budget):
        try:
            tac = z3.Then("simplify", "solve-eqs", "qfnra-nlsat").solver()
            tac.set("timeout", budget)
            tac.add(*fs)
            tac.add(*inst)
            return tac.check()
        except z3.Z3Exception:
            return z3.unknown

    def default(budget, sd):
        s = _mk_solver(budget, sd)
        s.add(*fs)
        s.add(*inst)
        r = s.check()
        return r, s

    r, s = default(min(timeout_ms, 3000), seed)
    if r == z3.unsat:
        return Verdict("proved", time.time() - t0, "z3", n_instances=len(inst))
    if r == z3.sat:
        return Verdict("failed", time.time() - t0, "z3", model=s.model(), n_instances=len(inst))
    reason = s.reason_unknown()
    if nlsat(min(timeout_ms, 12000)) == z3.unsat:
        return Verdict("proved", time.time() - t0, "z3-nlsat", n_instances=len(inst))
    if not portfolio:
        return Verdict("unknown", time.time() - t0, "z3+nlsat", n_instances=len(inst), reason=reason)
    # the default solver is erratic on nonlinear queries with uninterpreted symbols: the same query
    # is often decided in a second or two under another seed, so a few short attempts come first
    # ... and so is the same query in a fresh context (term numbering no longer depends on what
    # this process did before), which also makes the verdict reproducible
    try:
        ctx = z3.Context()
        s2 = z3.Solver(ctx=ctx)
        s2.set("timeout", min(timeout_ms, 8000))
        for f in list(fs) + list(inst):
            s2.add(f.translate(ctx))
        r = s2.check()
        if r == z3.unsat:
            return Verdict("proved", time.time() - t0, "z3(fresh-context)", n_instances=len(inst))
    except z3.Z3Exception:
        pass
    for sd in (seed + 1, seed + 2):
        r, s = default(min(timeout_ms, 4000), sd)
        if r == z3.unsat:
            return Verdict("proved", time.time() - t0, f"z3(seed+{sd - seed})", n_instances=len(inst))
        if r == z3.sat:
            return Verdict("failed", time.time() - t0, f"z3(seed+{sd - seed})", model=s.model(), n_instances=len(inst))
    r, s = default(min(timeout_ms, 10000), seed)
    if r == z3.unsat:
        return Verdict("proved", time.time() - t0, "z3", n_instances=len(inst))
    if r == z3.sat:
        return Verdict("failed", time.time() - t0, "z3", model=s.model(), n_instances=len(inst))
    if use_cvc5:
        v = _cvc5_check(s, min(timeout_ms, 15000))
        if v is not None:
            return Verdict(v, time.time() - t0, "cvc5", n_instances=len(inst), reason="z3: " + reason)
    r2, s2 = default(timeout_ms, seed + 17)
    if r2 == z3.unsat:
        return Verdict("proved", time.time() - t0, "z3(seed2)", n_instances=len(inst))
    if r2 == z3.sat:
        return Verdict("failed", time.time() - t0, "z3(seed2)", model=s2.model(), n_instances=len(inst))
    return Verdict("unknown", time.time() - t0, "z3+nlsat+cvc5", n_instances=len(inst), reason=reason)


def cvc5_verdict(assumptions, goal, timeout_ms):
    """'unsat' | 'sat' | None (unknown / timeout / error) from cvc5 on the same query."""
    fs = [f for f in assumptions if not z3.is_true(f)] + [z3.Not(goal)]
    fs = propagate_constants(fs)
    inst = axioms.instantiate(fs)
    s = z3.Solver()
    s.add(*fs)
    s.add(*inst)
    try:
        import cvc5
        slv = cvc5.Solver()
        slv.setOption("tlimit-per", str(timeout_ms))
        slv.setLogic("ALL")
        ip = cvc5.InputParser(slv)
        ip.setStringInput(cvc5.InputLanguage.SMT_LIB_2_6, s.to_smt2(), "q")
        sm = ip.getSymbolManager()
        res = None
        while True:
            cmd = ip.nextCommand()
            if cmd.isNull():
                break
            out = str(cmd.invoke(slv, sm)).strip()
            if out in ("unsat", "sat", "unknown"):
                res = out
        return res if res in ("unsat", "sat") else None
    except Exception:
        return None


def propagate_constants(fs, rounds=3):
    """Substitute `c == numeral` facts (top-level conjuncts) everywhere, so that e.g. a
    Constant child whose value is known to be -1 shows up as the numeral in exp/ln/ipow
    arguments before the axiom instances are generated.  Equivalence-preserving."""
    for _ in range(rounds):
        subst = []
        for f in fs:
            for g in (f.children() if z3.is_and(f) else [f]):
                if z3.is_eq(g):
                    a, b = g.arg(0), g.arg(1)
                    if z3.is_const(b) and b.decl().kind() == z3.Z3_OP_UNINTERPRETED and sym.is_concrete_num(a):
                        a, b = b, a
                    if z3.is_const(a) and a.decl().kind() == z3.Z3_OP_UNINTERPRETED and sym.is_concrete_num(b) \
                            and a.sort() == b.sort():
                        subst.append((a, b))
        if not subst:
            break
        new = []
        changed = False
        for f in fs:
            g = z3.simplify(z3.substitute(f, *subst))
            if z3.is_true(g):
                continue
            if g.get_id() != f.get_id():
                changed = True
            new.append(g)
        # keep the defining equalities themselves
        new += [a == b for a, b in subst]
        fs = new
        if not changed:
            break
    return fs


def _cvc5_check(s, timeout_ms):
    try:
        import cvc5
    except Exception:
        return None
    try:
        smt = s.to_smt2()
        slv = cvc5.Solver()
        slv.setOption("tlimit-per", str(timeout_ms))
        slv.setLogic("ALL")
        ip = cvc5.InputParser(slv)
        ip.setStringInput(cvc5.InputLanguage.SMT_LIB_2_6, smt, "q")
        sm = ip.getSymbolManager()
        res = None
        while True:
            cmd = ip.nextCommand()
            if cmd.isNull():
                break
            out = cmd.invoke(slv, sm)
            if "unsat" in str(out):
                res = "proved"
            elif "sat" in str(out) and "unknown" not in str(out):
                res = "failed-cvc5"
        if res == "proved":
            return "proved"
        return None        # a cvc5 `sat` is not trusted on its own (no model transfer): stay unknown
    except Exception:
        return None


def model_summary(model, limit=60):
    out = {}
    if model is None:
        return out
    for d in model.decls()[:400]:
        if d.arity() == 0:
            try:
                out[d.name()] = str(model[d])
            except Exception:
                pass
        if len(out) >= limit:
            break
    return out
