"""Structural view of expressions for C12 / C13: an algebraic datatype whose equality *is*
the structural equality of the property statement (same constructor, pairwise equal
arguments in the same order, numerically equal parameters)."""
from __future__ import annotations
import z3
from . import sym, spec
from .values import *

_E = z3.Datatype("ExprS")
_L = z3.Datatype("ExprL")
_L.declare("nil")
_L.declare("cons", ("hd", _E), ("tl", _L))
_E.declare("Constant", ("value", z3.RealSort()))
_E.declare("Variable", ("name", sym.Name))
for _c in ("Negation", "Reciprocal", "Sine", "Cosine"):
    _E.declare(_c, ("inner", _E))
for _c in ("NthPower", "NthRoot"):
    _E.declare(_c, ("inner", _E), ("n", z3.IntSort()))
for _c in ("Exponential", "Logarithm"):
    _E.declare(_c, ("inner", _E), ("base", z3.RealSort()))
for _c in ("Minus", "Divide", "Power"):
    _E.declare(_c, ("left", _E), ("right", _E))
for _c in ("Add", "Multiply"):
    _E.declare(_c, ("args", _L))
ExprS, ExprL = z3.CreateDatatypes(_E, _L)

hashE = z3.Function("hashE", ExprS, z3.IntSort())
hash_num = z3.Function("hash_num", z3.RealSort(), z3.IntSort())
hash_name = z3.Function("hash_name", sym.Name, z3.IntSort())
hash_str = z3.Function("hash_str", z3.IntSort(), z3.IntSort())
hash_items = z3.Function("hash_items", sym.NameSet, z3.ArraySort(sym.Name, z3.RealSort()), z3.IntSort())
_hash_tuple = {}


def hash_tuple(n):
    if n not in _hash_tuple:
        _hash_tuple[n] = z3.Function(f"hash_tuple{n}", *([z3.IntSort()] * (n + 1)))
    return _hash_tuple[n]


def ctor(name):
    return getattr(ExprS, name)


def recog(name):
    return getattr(ExprS, "is_" + name)


def mk_list(ts):
    r = ExprL.nil
    for t in reversed(ts):
        r = ExprL.cons(t, r)
    return r


def T(I, o):
    """Datatype term of an expression object."""
    if "T" in o.ghost:
        return o.ghost["T"]
    if "indexed" in o.ghost and o.cls is None:
        # child of a symbolic-arity node: its structural term is a function of the index
        from . import gmode
        fam, idx = o.ghost["indexed"]
        TF = z3.Function(f"T[{fam.name}]", z3.IntSort(), ExprS)
        t = TF(idx)
        o.ghost["T"] = t
        key = ("Tlink", fam.name)
        if key not in I.ghost.setdefault("big_registered", set()):
            I.ghost["big_registered"].add(key)
            gmode.qm(I).foralls.append((fam.length, lambda u: z3.And(*[(fam.tagF(u) == sym.CLS[cn]) == recog(cn)(TF(u))
                                                                      for cn in sym.CLASS_NAMES])))
        return t
    if o.cls is None or o.kind == "child":
        t = z3.Const(f"T[{o.name}]", ExprS)
        o.ghost["T"] = t
        # the class tag is the constructor of the structural term
        for cn in sym.CLASS_NAMES:
            I.path.assume((o.ghost["tag"] == sym.CLS[cn]) == recog(cn)(t))
        if o.cls is not None:
            I.path.assume(t == _table_T(I, o))
        else:
            o.ghost.setdefault("on_refine", []).append(lambda I2: I2.path.assume(t == _table_T(I2, o)))
        return t
    t = _table_T(I, o)
    o.ghost["T"] = t
    return t


def _table_T(I, o):
    c = o.cls.name
    f = o.fields
    if c == "Constant":
        return ExprS.Constant(real_term(f["value"]))
    if c == "Variable":
        return ExprS.Variable(I.bi.key_term(f["name"]))
    kids = [T(I, ch) for ch in spec.children(o)]
    if c in ("Add", "Multiply"):
        return ctor(c)(mk_list(kids))
    if c in ("NthPower", "NthRoot"):
        return ctor(c)(kids[0], num_term(f["_parameter"]))
    if c in ("Exponential", "Logarithm"):
        return ctor(c)(kids[0], real_term(f["_parameter"]))
    return ctor(c)(*kids)


def is_expr_obj(v):
    return isinstance(v, Obj) and v.kind != "foreign" and v.kind != "exception" and \
        (v.cls is None or (hasattr(v.cls, "mro") and any(k.name == "Expression" for k in v.cls.mro)))


def struct_eq(I, a, b):
    """Contract of child.__eq__(other)."""
    if is_expr_obj(b):
        return T(I, a) == T(I, b)
    return False


def struct_hash(I, o):
    return SNum(hashE(T(I, o)), True)
