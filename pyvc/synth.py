"""Reverse-mode symbolic differentiation: the accumulator dict Name -> Optional[Expression]
as symbolic state, and the contract of _compute_synthetic_partials.

State per ambient name k: (absent: Bool, obj: expression object).  The contract of
child._compute_synthetic_partials(acc, m) for every ambient k:
    absent' <=> absent and k not in Vars(c)
    not absent' => Vars(N) <= Vars(old, if present) u Vars(m) u Vars(c)
    for all p:  D(c,p) and D(m,p) and (absent or D(old,p))
                =>  (not absent' => D(N,p) and V(N,p) = (absent ? 0 : V(old,p)) + V(m,p) * dV(c,p)(k))
"""
from __future__ import annotations
import z3
from . import sym, spec
from .values import *
from .interp import LazyOpt, Unsupported
from .builtin_contracts import SDict


class SynthBase:
    """Symbolic accumulator dict Name -> Optional[Expression]; the state of any name is
    produced on demand (so names that only appear later, e.g. loop witnesses, are covered)."""
    def __init__(self, tag, state_fn):
        self.tag = tag
        self.state_fn = state_fn      # (I, name term) -> (absent Bool, obj-or-None)
        self.cache = {}

    def state_for(self, I, k):
        key = k.get_id()
        if key not in self.cache:
            st = self.state_fn(I, k)
            # the same dict entry reached through another (possibly equal) name term:
            # equal names => the same entry (same presence, same denotation, same variables)
            for (k1, (a1, o1)) in list(self.cache.values()):
                same = k1 == k
                I.path.assume(z3.Implies(same, a1 == st[0]))
                if o1 is not None and st[1] is not None:
                    o2 = st[1]
                    I.path.assume(z3.Implies(same, spec.vars_of(I, o1) == spec.vars_of(I, o2)))

                    def link(I2, pt, d_this, o1=o1, o2=o2, same=same):
                        if I2.ghost.get("_linking"):
                            return
                        I2.ghost["_linking"] = True
                        try:
                            d1, d2 = spec.den(I2, o1, pt), spec.den(I2, o2, pt)
                        finally:
                            I2.ghost["_linking"] = False
                        I2.path.assume(z3.Implies(same, z3.And(d1.D == d2.D, d1.V == d2.V)))
                    o1.ghost.setdefault("on_den", []).append(link)
                    o2.ghost.setdefault("on_den", []).append(link)
            self.cache[key] = (k, st)
        return self.cache[key][1]

    def get(self, I, key):
        k = I.bi.key_term(key)
        if k is None or k.sort() != sym.Name:
            return None
        a, o = self.state_for(I, k)
        if o is None or I.path.branch(a, "acc-entry-absent"):
            return None
        return o

    def __repr__(self):
        return f"SynthBase({self.tag})"


def initial_state(I, names, tag="acc0"):
    def state(I2, k):
        return (z3.Bool(f"{tag}[{k}].absent"), I2.contracts.make_child(I2, f"{tag}[{k}]"))
    b = SynthBase(tag, state)
    for k in names:
        b.state_for(I, k)
    return b


def dict_state(I, d, k):
    """(absent, obj) of name k in accumulator dict d (no forking)."""
    if d.entries:
        raise Unsupported("contract on an accumulator with concrete entries")
    if d.base is None:
        return (z3.BoolVal(True), None)
    if isinstance(d.base, SynthBase):
        return d.base.state_for(I, k)
    raise Unsupported("accumulator with foreign base")


def old_vars(I, absent, old):
    if old is None:
        return sym.empty_set()
    return z3.If(absent, sym.empty_set(), spec.vars_of(I, old))


def accumulate_clause(I, pt, k, absent0, old, absent1, new, c, m):
    """The per-point clause of the contract / post-condition (see module docstring)."""
    dc = spec.den(I, c, pt)
    dm = spec.den(I, m, pt)
    if old is None:
        pre_old = z3.BoolVal(True)
        v_old = z3.RealVal(0)
    else:
        do = spec.den(I, old, pt)
        pre_old = z3.Or(absent0, do.D)
        v_old = z3.If(absent0, z3.RealVal(0), do.V)
    dn = spec.den(I, new, pt)
    return z3.Implies(z3.And(dc.D, dm.D, pre_old),
                      z3.Implies(z3.Not(absent1), z3.And(dn.D, dn.V == v_old + dm.V * dc.dV(k))))


def contract_compute_synthetic_partials(ct, I, o, args, kwargs):
    acc, m = args[0], args[1]
    d = acc.fields["_synthetic_partials"]
    acc.fields["_synthetic_partials"] = post_state_dict(ct, I, o, d, m)
    I.heap_log.append(("mutate-acc", acc, None, I.where()))
    return None


def vars_bound(I, o):
    """Upper bound of the variables that entries written for node o may mention: Vars(o); a
    virtual node of a loop invariant may state a larger set (ghost `vars_bound`)."""
    f = o.ghost.get("vars_bound")
    return f(I) if f is not None else spec.vars_of(I, o)


def post_state_dict(ct, I, o, d, m):
    """The accumulator dict after `o._compute_synthetic_partials(acc, m)` started from dict d,
    as given by the contract (state produced per name on demand)."""
    tag = I.path.fresh_name(f"acc<{o.name}>")

    def state(I2, k):
        absent0, old = dict_state(I2, d, k)
        in_vars = sym.member(k, spec.vars_of(I2, o))
        absent1 = z3.simplify(z3.And(absent0, z3.Not(in_vars)))
        new = ct.make_child(I2, f"{tag}[{k}]")
        I2.path.assume(z3.Implies(z3.Not(absent1),
                                  sym.subset(new.ghost["vars"],
                                             sym.union(sym.union(old_vars(I2, absent0, old), spec.vars_of(I2, m)),
                                                       vars_bound(I2, o)))))

        def link(I3, pt, dn):
            I3.path.assume(accumulate_clause(I3, pt, k, absent0, old, absent1, new, o, m))
        new.ghost.setdefault("on_den", []).append(link)
        return (absent1, new)
    return SDict(base=SynthBase(tag, state))


def final_views(I, d, k):
    """Non-forking view of d.get(k): [(condition, absent Bool, obj-or-None)]."""
    cases = []
    rest = z3.BoolVal(True)
    for key, v in reversed(d.entries):
        c = I.bi.key_term(key) == k
        cases.append((z3.And(rest, c), z3.BoolVal(False), v))
        rest = z3.And(rest, z3.Not(c))
    if d.base is None:
        cases.append((rest, z3.BoolVal(True), None))
    elif isinstance(d.base, SynthBase):
        hit = d.base.state_for(I, k)
        cases.append((rest, hit[0], hit[1]))
    else:
        raise Unsupported("final view over foreign base")
    return cases
