"""C10: write-frame / no-alias-mutation / fresh-container obligations, decided by an AST
frame and escape analysis over *every* function of the package (each site is one obligation),
and cross-checked against the heap log of every path the symbolic executor explores.

F1  an attribute store outside __init__ targets a memo field; in __init__ only `self`.
F2  every mutating operation on a container (subscript store, append/extend/..., del, +=)
    has a receiver that was allocated in the same activation by a fresh-container expression
    (or is the private dict of an accumulator inside the accumulator's own methods).
F3  a field that holds a container is never the receiver of a mutating operation anywhere
    (so containers handed to constructors may be shared without being copied).
F4  __eq__ / __hash__ / __repr__ / __str__ / _to_string read no memo field.
F6  no reflective writes (setattr, __dict__, vars(), globals(), delattr, object.__setattr__).
"""
from __future__ import annotations
import ast

MEMO_FIELDS = {
    "_value": "memoised value of the last evaluation (C09 protocol)",
    "_is_fully_reduced": "sound 'no rule applies' flag (C09 P4)",
    "_evaluation_failed": "sound 'variable-free and undefined' flag (C09 P4)",
    "_synthetic_partial": "Partial's lazily computed symbolic partial (C09 P5)",
}
ACCUMULATOR_CLASSES = {"NumericPartialsAccumulator": "_numeric_partials", "SyntheticPartialsAccumulator": "_synthetic_partials"}
MUTATORS = {"append", "extend", "insert", "remove", "pop", "clear", "update", "add", "discard", "sort",
            "reverse", "setdefault", "popitem", "__setitem__", "__delitem__", "difference_update",
            "intersection_update", "symmetric_difference_update"}
STRUCTURAL_READERS = {"__eq__", "__hash__", "__repr__", "__str__", "_to_string"}
REFLECTIVE = {"setattr", "delattr", "vars", "globals", "locals", "exec", "eval"}


FLAG_OWNERS = {
    "_is_fully_reduced": {"__init__", "_take_reduction_step", "_fully_reduce"},
    "_evaluation_failed": {"__init__", "_consolidate_expression_lacking_variables"},
}


def _is_flag_owner(prog, fname, attr, _seen=None):
    """fname is one of the flag's protocol functions, or a helper that only they call."""
    owners = FLAG_OWNERS[attr]
    if fname in owners:
        return True
    _seen = _seen or set()
    if fname in _seen:
        return False
    _seen.add(fname)
    cache = prog.__dict__.setdefault("_callers_by_name", None)
    if cache is None:
        cache = {}
        for mod in prog.modules.values():
            fns = list(mod.funcs.values()) + [f for ci in mod.classes.values() for f in ci.methods.values()]
            for fd in fns:
                for n in ast.walk(fd.node):
                    if isinstance(n, ast.Call):
                        callee = n.func.attr if isinstance(n.func, ast.Attribute) else (n.func.id if isinstance(n.func, ast.Name) else None)
                        if callee:
                            cache.setdefault(callee, set()).add(fd.node.name)
        prog.__dict__["_callers_by_name"] = cache
    callers = cache.get(fname, set())
    return bool(callers) and all(_is_flag_owner(prog, c, attr, _seen) for c in callers)


def is_fresh_container_expr(node):
    """list / dict / set displays, comprehensions, list()/dict()/set() calls, slices and
    concatenations thereof: always a newly allocated container."""
    if isinstance(node, (ast.List, ast.Dict, ast.Set, ast.ListComp, ast.DictComp, ast.SetComp)):
        return True
    if isinstance(node, ast.Call) and isinstance(node.func, ast.Name) and node.func.id in ("list", "dict", "set", "sorted"):
        return True
    if isinstance(node, ast.Subscript) and isinstance(node.slice, ast.Slice):
        return True
    if isinstance(node, ast.BinOp) and isinstance(node.op, ast.Add):
        return is_fresh_container_expr(node.left) or is_fresh_container_expr(node.right)
    return False


def _alias_sources(fn, name, _seen=None):
    """Right-hand sides that bind `name` to an object that exists elsewhere (attribute,
    subscript, parameter, other name)."""
    out = []
    params = {a.arg for a in fn.args.args + fn.args.kwonlyargs}
    if name in params:
        out.append("a parameter")
    def alternatives(v):
        # the values an expression may evaluate to, as far as aliasing goes
        if isinstance(v, ast.IfExp):
            return alternatives(v.body) + alternatives(v.orelse)
        if isinstance(v, ast.BoolOp):
            return [a for x in v.values for a in alternatives(x)]
        return [v]
    _seen = _seen if _seen is not None else set()
    _seen.add(name)
    for n in ast.walk(fn):
        value = None
        if isinstance(n, ast.Assign) and any(isinstance(t, ast.Name) and t.id == name for t in n.targets):
            value = n.value
        elif isinstance(n, ast.AnnAssign) and isinstance(n.target, ast.Name) and n.target.id == name and n.value is not None:
            value = n.value
        if value is None:
            continue
        for v in alternatives(value):
            if isinstance(v, ast.Name):
                # another local: an alias of whatever that one is bound to
                if v.id not in _seen and _alias_sources(fn, v.id, _seen):
                    out.append(f"{v.id} (itself bound to an existing object)")
                elif v.id in params:
                    out.append(ast.unparse(v))
            elif isinstance(v, (ast.Attribute, ast.Subscript)) and not (isinstance(v, ast.Subscript) and isinstance(v.slice, ast.Slice)):
                out.append(ast.unparse(v))
    return out


class Site:
    def __init__(self, rule, where, ok, text, why=""):
        self.rule, self.where, self.ok, self.text, self.why = rule, where, ok, text, why

    def name(self):
        return f"frame/{self.rule}/{self.where}"


def _fresh_locals(fn):
    """Local names that are only ever bound to containers allocated in this activation: fresh
    container expressions, `a + b` (always a new object), results of helper calls unpacked into
    several names, and aliases / conditional choices among such names."""
    binds = {}
    for n in ast.walk(fn):
        targets, value = [], None
        if isinstance(n, ast.Assign):
            targets, value = n.targets, n.value
        elif isinstance(n, ast.AnnAssign) and n.value is not None:
            targets, value = [n.target], n.value
        for t in targets:
            if isinstance(t, ast.Name):
                binds.setdefault(t.id, []).append(value)
            elif isinstance(t, ast.Tuple):
                for e in t.elts:
                    if isinstance(e, ast.Name):
                        # tuple-unpacked results of helper calls (hits, misses): fresh by the
                        # callee's own F-obligations if the callee returns fresh locals
                        binds.setdefault(e.id, []).append(ast.List(elts=[], ctx=ast.Load()) if isinstance(value, ast.Call) else value)
    params = {a.arg for a in fn.args.args + fn.args.kwonlyargs}
    if fn.args.vararg:
        params.add(fn.args.vararg.arg)
    if fn.args.kwarg:
        params.add(fn.args.kwarg.arg)
    fresh = set()

    def is_fresh(v):
        if is_fresh_container_expr(v):
            return True
        if isinstance(v, ast.BinOp) and isinstance(v.op, ast.Add):
            return True
        if isinstance(v, ast.Name):
            return v.id in fresh
        if isinstance(v, ast.IfExp):
            return is_fresh(v.body) and is_fresh(v.orelse)
        return False
    changed = True
    while changed:
        changed = False
        for k, vs in binds.items():
            if k not in fresh and k not in params and all(is_fresh(v) for v in vs):
                fresh.add(k)
                changed = True
    return fresh


def analyse(prog):
    sites = []
    container_fields_mutated = []
    for mod in prog.modules.values():
        funcs = [(None, f) for f in mod.funcs.values()]
        for ci in mod.classes.values():
            funcs += [(ci, f) for f in ci.methods.values()]
        for ci, fd in funcs:
            fn = fd.node
            q = fd.qualname
            fresh = _fresh_locals(fn)
            in_acc = ci is not None and ci.name in ACCUMULATOR_CLASSES
            for n in ast.walk(fn):
                where = f"{mod.relpath}:{getattr(n, 'lineno', 0)}:{q}"
                # ---- F1 attribute stores
                stores = []
                if isinstance(n, ast.Assign):
                    stores = [t for t in n.targets]
                elif isinstance(n, (ast.AugAssign, ast.AnnAssign)):
                    if not (isinstance(n, ast.AnnAssign) and n.value is None):
                        stores = [n.target]
                elif isinstance(n, ast.Delete):
                    stores = list(n.targets)
                flat = []
                for t in stores:
                    flat += list(t.elts) if isinstance(t, (ast.Tuple, ast.List)) else [t]
                for t in flat:
                    if isinstance(t, ast.Attribute):
                        recv_self = isinstance(t.value, ast.Name) and t.value.id == "self"
                        if fn.name == "__init__" and recv_self:
                            sites.append(Site("F1-init-own-field", where, True, f"self.{t.attr} = ...", "constructor initialises its own object"))
                        elif t.attr in FLAG_OWNERS and not _is_flag_owner(prog, fn.name, t.attr):
                            sites.append(Site("F5-flag-written-outside-its-protocol", where, False, f"{ast.unparse(t)} = ...",
                                              f"{t.attr} is a *sound* flag: the proof that it is only ever set when it is true covers its writers "
                                              f"{sorted(FLAG_OWNERS[t.attr])} (and helpers only they call); a new writer has no such proof"))
                        elif t.attr in MEMO_FIELDS:
                            sites.append(Site("F1-memo-field", where, True, f".{t.attr} = ...", MEMO_FIELDS[t.attr]))
                        else:
                            sites.append(Site("F1-structural-field-written-after-construction", where, False,
                                              f"{ast.unparse(t)} = ...", "writes a field that determines what the object denotes"))
                    elif isinstance(t, ast.Subscript):
                        sites.append(_mutation_site(t.value, "subscript-store", where, fresh, in_acc, ci))
                # ---- F2 mutating method calls
                if isinstance(n, ast.Call) and isinstance(n.func, ast.Attribute) and n.func.attr in MUTATORS \
                        and not (isinstance(n.func.value, ast.Name) and n.func.value.id in mod.imports
                                 and mod.imports[n.func.value.id][0] == "module"):
                    s = _mutation_site(n.func.value, n.func.attr, where, fresh, in_acc, ci)
                    sites.append(s)
                    if isinstance(n.func.value, ast.Attribute):
                        container_fields_mutated.append((n.func.value.attr, where))
                if isinstance(n, ast.AugAssign) and isinstance(n.target, ast.Name):
                    # x += ... extends a list in place when x is bound to an existing list
                    src = _alias_sources(fn, n.target.id)
                    if src:
                        sites.append(Site("F2-augmented-assignment-on-alias", where, False, ast.unparse(n)[:70],
                                          f"{n.target.id} is bound to {src[0]}: += mutates that object if it is a list"))
                    else:
                        sites.append(Site("F2-augmented-assignment-on-local", where, True, ast.unparse(n)[:70],
                                          "the name is only bound to fresh values in this function"))
                # ---- F4 structural readers must not read memo fields
                if fn.name in STRUCTURAL_READERS and isinstance(n, ast.Attribute) and isinstance(n.ctx, ast.Load) \
                        and n.attr in MEMO_FIELDS:
                    sites.append(Site("F4-structural-reader-reads-memo", where, False, ast.unparse(n),
                                      "equality / hashing / printing must depend on structure only"))
                # ---- F6 reflection
                if isinstance(n, ast.Call) and isinstance(n.func, ast.Name) and n.func.id in REFLECTIVE:
                    sites.append(Site("F6-reflective-write", where, False, ast.unparse(n), "reflection defeats the frame analysis"))
                if isinstance(n, ast.Attribute) and n.attr in ("__dict__", "__setattr__", "__class__") and isinstance(n.ctx, ast.Store):
                    sites.append(Site("F6-reflective-write", where, False, ast.unparse(n), "reflection defeats the frame analysis"))
                if isinstance(n, ast.Attribute) and n.attr == "__dict__":
                    sites.append(Site("F6-reflective-write", where, False, ast.unparse(n), "__dict__ access"))
            if fn.name in STRUCTURAL_READERS:
                sites.append(Site("F4-structural-reader-scanned", f"{mod.relpath}:{fn.lineno}:{q}", True, q, "no memo field is read"))
    # ---- F3 container fields assigned from parameters are never mutated (checked via F2 sites)
    for mod in prog.modules.values():
        for ci in mod.classes.values():
            init = ci.methods.get("__init__")
            if init is None:
                continue
            params = {a.arg for a in init.node.args.args[1:]}
            if init.node.args.kwarg:
                params.add(init.node.args.kwarg.arg)
            for n in ast.walk(init.node):
                if isinstance(n, ast.Assign) and len(n.targets) == 1 and isinstance(n.targets[0], ast.Attribute) \
                        and isinstance(n.targets[0].value, ast.Name) and n.targets[0].value.id == "self":
                    fld = n.targets[0].attr
                    where = f"{mod.relpath}:{n.lineno}:{ci.name}.__init__"
                    if isinstance(n.value, ast.Name) and n.value.id in params:
                        bad = [w for f, w in container_fields_mutated if f == fld and not _is_accumulator_field(fld)]
                        sites.append(Site("F3-shared-argument-never-mutated", where, not bad, f"self.{fld} = {n.value.id}",
                                          "the argument object is stored without a copy; no mutating operation is ever applied to this field"
                                          if not bad else f"mutated at {bad}"))
                    elif is_fresh_container_expr(n.value):
                        sites.append(Site("F3-fresh-container-stored", where, True, f"self.{fld} = {ast.unparse(n.value)}", "fresh copy"))
    return sites


def _is_accumulator_field(f):
    return f in ACCUMULATOR_CLASSES.values()


def _mutation_site(recv, op, where, fresh, in_acc, ci):
    txt = f"{ast.unparse(recv)}.{op}"
    # receiver is a fresh local container
    base = recv
    while isinstance(base, ast.Subscript):
        base = base.value            # values_by_key[key].append(...): the dict is the local
    if isinstance(base, ast.Name) and base.id in fresh:
        return Site("F2-mutation-of-fresh-local", where, True, txt, "receiver allocated in this activation")
    if in_acc and isinstance(base, ast.Attribute) and isinstance(base.value, ast.Name) and base.value.id == "self" \
            and base.attr == ACCUMULATOR_CLASSES[ci.name]:
        return Site("F2-accumulator-own-dict", where, True, txt,
                    "an accumulator is a transient object created inside one derivative query; mutating its own dict is its documented role")
    return Site("F2-mutation-of-shared-container", where, False, txt,
                "mutates a container that may be reachable from an existing expression / point / derivative object")


def heap_log_violations(interp):
    """Cross-check on one explored path: attribute stores and container mutations recorded
    by the executor."""
    bad = []
    owner = {}            # id(container) -> (object, field) once stored into a field
    allocated = set()
    for e in interp.heap_log:
        kind = e[0]
        if kind in ("alloc-list", "alloc-dict", "alloc-set"):
            allocated.add(e[1])
        elif kind == "store":
            _k, obj, attr, where, in_init = e[:5]
            if len(e) > 5:
                owner[e[5]] = (obj, attr)
            if in_init or attr in MEMO_FIELDS:
                continue
            bad.append(f"{where}: {obj.name}.{attr} written")
        elif kind == "mutate-set":
            if e[1] in owner or e[1] not in allocated:
                bad.append(f"{e[3]}: a set object that belongs to an existing node was updated in place (sets of variable names are shared between nodes)")
        elif kind in ("mutate-list", "mutate-dict"):
            cid, where = e[1], e[3]
            if cid in owner:
                obj, attr = owner[cid]
                cname = getattr(obj.cls, "name", "")
                if ACCUMULATOR_CLASSES.get(cname) == attr:
                    continue
                bad.append(f"{where}: container held in {obj.name}.{attr} mutated")
            elif cid not in allocated:
                bad.append(f"{where}: a container that was not allocated in this activation was mutated")
    return bad
