"""./check selftest : apply each stored mutant to a scratch copy of /repo/src and run the
relevant quick check against it."""
from __future__ import annotations
import os, shutil, subprocess, sys, tempfile, importlib.util


def main(only=None):
    here = os.path.dirname(os.path.dirname(os.path.abspath(__file__)))
    spec = importlib.util.spec_from_file_location("mutants", os.path.join(here, "selftest", "mutants.py"))
    mod = importlib.util.module_from_spec(spec)
    spec.loader.exec_module(mod)
    ok = True
    rows = []
    for (mid, prop, rel, old, new, filt, expect) in mod.MUTANTS:
        if only and only not in mid:
            continue
        tmp = tempfile.mkdtemp(prefix="pyvc-mut-")
        try:
            shutil.copytree("/repo/src", os.path.join(tmp, "src"))
            path = os.path.join(tmp, "src", rel)
            s = open(path).read()
            if old not in s:
                rows.append((mid, "PATCH-DOES-NOT-APPLY"))
                ok = False
                continue
            open(path, "w").write(s.replace(old, new, 1))
            env = dict(os.environ, PYVC_REPO_SRC=os.path.join(tmp, "src"), PYVC_NO_EVIDENCE="1")
            p = subprocess.run([os.path.join(here, "check"), prop, "--only", filt], capture_output=True, text=True, env=env)
            got = p.returncode
            good = (got == 1) if expect else (got == 0)
            tail = [l for l in p.stdout.splitlines() if l.startswith(("  failed", "UNDEC", "ENGINE"))][:2]
            rows.append((mid, ("ok" if good else "WRONG") + f" exit={got} expected={'1' if expect else '0'} " + " | ".join(t.strip()[:150] for t in tail)))
            ok = ok and good
        finally:
            shutil.rmtree(tmp, ignore_errors=True)
    for r in rows:
        print(*r)
    print("selftest", "PASSED" if ok else "FAILED")
    return 0 if ok else 1


def benign(only=None):
    """./check benign : behaviour-preserving refactorings (selftest/benign/) must leave every
    listed check at exit 0."""
    import json
    here = os.path.dirname(os.path.dirname(os.path.abspath(__file__)))
    man = json.load(open(os.path.join(here, "selftest", "benign", "manifest.json")))
    ok = True
    for m in man:
        if only and only not in m["id"]:
            continue
        tmp = tempfile.mkdtemp(prefix="pyvc-benign-")
        try:
            shutil.copytree("/repo/src", os.path.join(tmp, "src"))
            p = subprocess.run(["git", "apply", "--directory", tmp, os.path.join(here, "selftest", "benign", m["patch"])],
                               capture_output=True, text=True, cwd=tmp)
            if p.returncode != 0:
                p = subprocess.run(["patch", "-p1", "-d", tmp, "-i", os.path.join(here, "selftest", "benign", m["patch"])],
                                   capture_output=True, text=True)
            if p.returncode != 0:
                print(m["id"], "PATCH-DOES-NOT-APPLY", p.stderr[:200])
                ok = False
                continue
            env = dict(os.environ, PYVC_REPO_SRC=os.path.join(tmp, "src"), PYVC_NO_EVIDENCE="1")
            res = []
            for q in m["checks_that_must_stay_green"]:
                r = subprocess.run([os.path.join(here, "check"), q], capture_output=True, text=True, env=env)
                res.append(f"{q}={r.returncode}")
                ok = ok and r.returncode == 0
                if r.returncode != 0:
                    why = [l for l in (r.stdout + r.stderr).splitlines() if l.startswith(("VIOLATION", "UNDECIDED", "ENGINE", "  failed", "Traceback"))][:3]
                    res.append("[" + " | ".join(w[:160] for w in why) + "]")
            print(m["id"], " ".join(res))
        finally:
            shutil.rmtree(tmp, ignore_errors=True)
    print("benign", "PASSED" if ok else "FAILED")
    return 0 if ok else 1
