"""./check lemmas : machine-check spec/lemmas.lean (Lean 4 + Mathlib) and record its hash.

The SMT layer uses real-analysis facts as ground axiom instances (pyvc/axioms.py); this file
states them (and the adequacy of the dV column of the spec table) as Lean theorems.  The
per-property checks only compare the hash of the lemma file with the recorded one."""
from __future__ import annotations
import hashlib, json, os, re, subprocess, sys, time

HERE = os.path.dirname(os.path.dirname(os.path.abspath(__file__)))
LEAN = os.path.join(HERE, "spec", "lemmas.lean")
OK = os.path.join(HERE, "spec", "lemmas.ok.json")

# schemas of pyvc/axioms.py that have NO Lean counterpart yet (trusted axioms)
TRUSTED_SCHEMAS = [
    "root of a quotient for odd n with arguments of any non-zero sign (the product case is ax_root_mul_any)",
    "parity of integer products ((a*b) % 2 == 0 <=> a % 2 == 0 or b % 2 == 0) and a*b >= a, b for a, b >= 1",
    "cardinality facts of finite name sets (card >= 0, card = 0 <=> empty, card = 1 => singleton)",
    "the identification of Python's float operations (**, math.sqrt/cbrt/log/sin/cos) with the real functions",
    "the meaning of the big-operator symbols of G-mode (bigsum / bigprod / bighash are Finset.range sums / products / any function of the element sequence); their unfolding, extensionality, zero-factor, sum-of-zeros, cons and entry-removed schemas are proved (ax_bigsum_succ, ax_bigsum_ext, ax_bigprod_has_zero, ax_bigsum_zero_or_witness, ax_bigprod_cons, ax_bigprod_without, d_bigprod_without, ax_bigsum_filter, ax_bigprod_filter, ax_filter_list_sum, ax_filter_list_prod, ax_bigsum_partition, ax_bigprod_partition, ax_partition_lengths, ax_bigsum_neg, ax_bigprod_neg, ax_bigprod_split_entry, ax_bigsum_split_at, ax_bigprod_split_at, ax_bigprod_inv, ax_bigprod_inv_mul); that a filtered list of symbolic length is the sub-list (List.range n).filter P in order is part of that meaning",
    "dV row of the odd root at negative arguments (reduces to d_root_pos on -f by ax_root_neg)",
]


def sha():
    with open(LEAN, "rb") as fh:
        return hashlib.sha256(fh.read()).hexdigest()


def status():
    """For evidence files: is the lemma file the one that was machine-checked?"""
    if not os.path.exists(OK):
        return {"checked": False, "reason": "spec/lemmas.ok.json missing"}
    rec = json.load(open(OK))
    return {"checked": rec.get("sha256") == sha(), "theorems": len(rec.get("theorems", [])),
            "lean": rec.get("lean"), "sha256": rec.get("sha256"), "trusted_schemas": TRUSTED_SCHEMAS}


def main():
    src = open(LEAN).read()
    code = re.sub(r"/-.*?-/", "", src, flags=re.S)
    code = "\n".join(l.split("--")[0] for l in code.splitlines())
    bad = [w for w in ("sorry", "admit", "native_decide") if re.search(r"\b" + w + r"\b", code)]
    if re.search(r"^\s*axiom\b", code, flags=re.M):
        bad.append("axiom")
    if bad:
        print("lemmas: forbidden escape hatch in spec/lemmas.lean:", bad)
        return 3
    t0 = time.time()
    try:
        p = subprocess.run(["lean", LEAN], capture_output=True, text=True, timeout=1800, cwd=os.path.dirname(LEAN))
    except (OSError, subprocess.TimeoutExpired) as e:
        print("lemmas: lean could not be run:", e)
        return 3
    errs = [l for l in (p.stdout + p.stderr).splitlines() if ": error" in l]
    if p.returncode != 0 or errs:
        print("\n".join(errs[:20]) or p.stdout[-2000:])
        print("lemmas: FAILED")
        return 1
    thms = re.findall(r"^(?:include [^\n]* in )?theorem\s+(\w+)", src, flags=re.M)
    ver = subprocess.run(["lean", "--version"], capture_output=True, text=True).stdout.strip()
    json.dump({"sha256": sha(), "theorems": thms, "lean": ver, "seconds": round(time.time() - t0, 1)}, open(OK, "w"), indent=1)
    print(f"lemmas: {len(thms)} theorems checked by {ver} in {time.time() - t0:.0f}s; hash recorded in spec/lemmas.ok.json")
    return 0


if __name__ == "__main__":
    sys.exit(main())
