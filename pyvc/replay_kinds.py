"""Observables of the replay files for the structural / symbolic properties."""
from __future__ import annotations


def public_names():
    import smoothmath as sm
    import smoothmath.expression as ex
    ns = {k: getattr(sm, k) for k in sm.__all__}
    ns.update({k: getattr(ex, k) for k in ex.__all__})
    return ns


def observe(sc, add, build, make_point, oracle_outcome, oracle_partial, point, x):
    kind = sc["kind"]
    if kind == "repr":
        e = build(sc["tree"])
        for fn in (repr, str):
            def thunk(fn=fn):
                back = eval(fn(e), public_names())
                return 1.0 if (back == e and type(back) is type(e)) else 0.0
            add(f"eval({fn.__name__}(e)) == e   [{fn(e)}]", thunk, ("value", 1.0))
        return
    if kind in ("reducer", "method_refines"):
        # C08: the rule / step / pass must return None or an expression that is defined
        # wherever the input is, with the same value
        tree = sc["tree"]
        method = sc["rule"]
        want = oracle_outcome(tree, point)
        e = build(tree)
        out = getattr(e, method)()
        if out is None:
            add(f"e.{method}() declined", lambda: 1.0, ("value", 1.0))
            return
        if want[0] != "value":
            add(f"input undefined at the point: nothing required of {out}", lambda: 1.0, ("value", 1.0))
            return
        add(f"e.{method}() = {out}; its value at the point vs the input's", lambda: out.at(make_point(point)), want)
        return
    if kind in ("eq_hash", "wrapper_eq_hash", "point_eq_hash"):
        a, b = decode(sc["a"], build, make_point), decode(sc["b"], build, make_point)
        want_eq = oracle_equal(sc["a"], sc["b"])
        add(f"(a == b) is {want_eq}  [a={a!r}, b={b!r}]", lambda: 1.0 if ((a == b) is want_eq) else 0.0, ("value", 1.0))
        if want_eq:
            add("equal objects have equal hashes", lambda: 1.0 if hash(a) == hash(b) else 0.0, ("value", 1.0))
        # equality must not depend on what was computed before: use both objects at different points
        import smoothmath as sm
        for obj, val in ((a, 1.5), (b, -2.25)):
            names = sorted(getattr(obj, "_variable_names", []) or [])
            try:
                obj.at(sm.Point(**{n: val + i for i, n in enumerate(names)}))
            except Exception:
                pass
        add(f"after evaluating a and b at different points: (a == b) is {want_eq}",
            lambda: 1.0 if ((a == b) is want_eq) else 0.0, ("value", 1.0))
        return
    if kind == "number_line":
        import smoothmath as sm
        import smoothmath.expression as ex
        name = sc["name"]
        add(f"Variable({name!r}).at(3.0) == 3.0 (a bare number for a one-variable expression)",
            lambda: ex.Variable(name).at(3.0), ("value", 3.0))
        add(f"Derivative(Variable({name!r})).at(3.0) == 1",
            lambda: sm.Derivative(ex.Variable(name)).at(3.0), ("value", 1.0))
        add(f"Point(**{{{name!r}: 2.0}}).coordinate({name!r}) == 2.0",
            lambda: sm.Point(**{name: 2.0}).coordinate(name), ("value", 2.0))
        return
    if kind == "value_repr":
        a = decode(sc["a"], build, make_point)
        for fn in (repr, str):
            def thunk(fn=fn):
                back = eval(fn(a), public_names())
                return 1.0 if (back == a and type(back) is type(a)) else 0.0
            add(f"eval({fn.__name__}(o)) == o   [{fn(a)}]", thunk, ("value", 1.0))
        return
    if kind == "constructor":
        import smoothmath.expression as ex
        cls = getattr(ex, sc["cls"])
        args = [decode(v, build, make_point) for v in sc["args"]]
        want = oracle_wf(sc["cls"], sc["args"])
        def thunk():
            try:
                o = cls(*args)
            except Exception:
                return 0.0
            return 1.0
        add(f"{sc['cls']}({', '.join(map(repr, args))}) accepted iff well-formed (well-formed={want})", thunk, ("value", 1.0 if want else 0.0))
        return
    if kind == "operator":
        import operator as op
        fn = {"__neg__": lambda a, b: -a, "__add__": op.add, "__sub__": op.sub, "__mul__": op.mul,
              "__truediv__": op.truediv, "__pow__": op.pow}[sc["op"]]
        a, b = decode(sc["a"], build, make_point), decode(sc["b"], build, make_point) if sc.get("b") is not None else None
        want = oracle_operator(sc["op"], sc["a"], sc.get("b"))
        def thunk():
            try:
                r = fn(a, b)
            except Exception:
                return "rejected"
            return repr(r)
        real = thunk()
        add(f"{sc['op']} on a={a!r}, b={b!r}: got {real}, expected {want}", lambda: 1.0 if real == want else 0.0, ("value", 1.0))
        return
    raise KeyError(f"unknown replay kind {kind}")


class Foreign:
    def __repr__(self):
        return "Foreign()"


def decode(v, build, make_point):
    import smoothmath as sm
    if v is None:
        return None
    if "tree" in v:
        return build(v["tree"])
    if "foreign" in v:
        return Foreign()
    if "num" in v:
        from pyvc.replaylib import num
        return num(v["num"])
    if "str" in v:
        return v["str"]
    if "none" in v:
        return None
    if "point" in v:
        return make_point(v["point"])
    if "wrapper" in v:
        w = v["wrapper"]
        e = build(v["e"]["tree"])
        if w == "Partial":
            return sm.Partial(e, v["name"])
        if w == "Derivative":
            return sm.Derivative(e)
        if w == "Differential":
            return sm.Differential(e)
        return sm.LocatedDifferential(e, make_point(v["pt"]))
    raise KeyError(v)


def tree_equal(a, b):
    from pyvc.replaylib import num
    if a[0] != b[0] or len(a) != len(b):
        return False
    for x, y in zip(a[1:], b[1:]):
        if isinstance(x, list) and x and isinstance(x[0], str) and x[0][:1].isupper():
            if not (isinstance(y, list) and tree_equal(x, y)):
                return False
        elif isinstance(x, str) or isinstance(y, str):
            if x != y:
                return False
        else:
            if num(x) != num(y):
                return False
    return True


def oracle_equal(a, b):
    from pyvc.replaylib import num
    if "tree" in a and "tree" in b:
        return tree_equal(a["tree"], b["tree"])
    if "point" in a and "point" in b:
        pa = {k: num(v) for k, v in a["point"].items()}
        pb = {k: num(v) for k, v in b["point"].items()}
        return pa == pb
    if "wrapper" in a and "wrapper" in b:
        if a["wrapper"] != b["wrapper"]:
            return False
        ok = tree_equal(a["e"]["tree"], b["e"]["tree"])
        if a["wrapper"] == "Partial":
            ok = ok and a["name"] == b["name"]
        if a["wrapper"] == "LocatedDifferential":
            ok = ok and oracle_equal({"point": a["pt"]}, {"point": b["pt"]})
        return ok
    return False


def oracle_wf(cls, args):
    from pyvc.replaylib import num
    import re
    is_expr = lambda v: "tree" in v
    def pos_int(v):
        if "num" not in v:
            return False
        n = num(v["num"])
        return (isinstance(n, int) or float(n).is_integer()) and n >= 1
    if cls == "Constant":
        return True
    if cls == "Variable":
        return "str" in args[0] and bool(args[0]["str"]) and re.match(r"\A\w*\Z", args[0]["str"]) is not None
    if cls in ("Add", "Multiply"):
        return all(is_expr(a) for a in args)
    if cls in ("Minus", "Divide", "Power"):
        return len(args) == 2 and is_expr(args[0]) and is_expr(args[1])
    if not args or not is_expr(args[0]):
        return False
    if cls in ("NthPower", "NthRoot"):
        return len(args) == 2 and pos_int(args[1])
    if cls in ("Exponential", "Logarithm"):
        if len(args) == 1:
            return True
        if "num" not in args[1]:
            return False
        b = num(args[1]["num"])
        return b > 0 and (cls == "Exponential" or b != 1)
    return len(args) == 1


def oracle_operator(op, a, b):
    from pyvc.replaylib import build, num
    import smoothmath.expression as ex
    A = build(a["tree"])
    if op == "__neg__":
        return repr(ex.Negation(A))
    if b is None or "tree" not in b:
        if op == "__pow__" and b is not None and "num" in b:
            n = num(b["num"])
            if (isinstance(n, int) or float(n).is_integer()) and n >= 1:
                return repr(ex.NthPower(A, int(n)))
        return "rejected"
    B = build(b["tree"])
    cls = {"__add__": ex.Add, "__sub__": ex.Minus, "__mul__": ex.Multiply, "__truediv__": ex.Divide, "__pow__": ex.Power}[op]
    return repr(cls(A, B))
