"""Observables of the replay files for the structural / symbolic properties."""
from __future__ import annotations


def public_names():
    import smoothmath as sm
    import smoothmath.expression as ex
    ns = {k: getattr(sm, k) for k in sm.__all__}
    ns.update({k: getattr(ex, k) for k in ex.__all__})
    return ns


def observe(sc, add, build, make_point, oracle_outcome, oracle_partial, point, x):
    kind = sc["kind"]
    if kind == "repr":
        e = build(sc["tree"])
        for fn in (repr, str):
            def thunk(fn=fn):
                back = eval(fn(e), public_names())
                return 1.0 if (back == e and type(back) is type(e)) else 0.0
            add(f"eval({fn.__name__}(e)) == e   [{fn(e)}]", thunk, ("value", 1.0))
        return
    if kind in ("reducer", "method_refines"):
        # C08: the rule / step / pass must return None or an expression that is defined
        # wherever the input is, with the same value
        tree = sc["tree"]
        method = sc["rule"]
        want = oracle_outcome(tree, point)
        e = build(tree)
        out = getattr(e, method)()
        if out is None:
            add(f"e.{method}() declined", lambda: 1.0, ("value", 1.0))
            return
        if want[0] != "value":
            add(f"input undefined at the point: nothing required of {out}", lambda: 1.0, ("value", 1.0))
            return
        add(f"e.{method}() = {out}; its value at the point vs the input's", lambda: out.at(make_point(point)), want)
        return
    raise KeyError(f"unknown replay kind {kind}")
