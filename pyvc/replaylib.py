"""Runtime of the replay files: rebuilds a counter-model as real smoothmath objects, runs the
property's observable on the real code (the tree in /repo/src at the time of the replay) and
compares with an independent oracle (mpmath, 50 digits).

Usage:  PYTHONPATH=/repo/src python3-vt /verif/pyvc/replaylib.py <scenario.json>
Exit 1 when the real code misbehaves on the scenario (violation reproduced), 0 otherwise.
"""
from __future__ import annotations
import json, sys, math, os


def _imports():
    import smoothmath as sm
    import smoothmath.expression as ex
    return sm, ex


def num(v):
    """JSON number encodings: int, float, [p, q] rational, ['approx', 'decimal?']."""
    if isinstance(v, list):
        if v and v[0] == "approx":
            return float(str(v[1]).rstrip("?"))
        p, q = v
        if q == 1:
            return p
        return p / q
    return v


def build(tree):
    sm, ex = _imports()
    c = tree[0]
    if c == "Constant":
        return ex.Constant(num(tree[1]))
    if c == "Variable":
        return ex.Variable(tree[1])
    if c in ("Add", "Multiply"):
        return getattr(ex, c)(*[build(t) for t in tree[1:]])
    if c in ("Minus", "Divide", "Power"):
        return getattr(ex, c)(build(tree[1]), build(tree[2]))
    if c in ("NthPower", "NthRoot"):
        return getattr(ex, c)(build(tree[1]), n=num(tree[2]))
    if c in ("Exponential", "Logarithm"):
        return getattr(ex, c)(build(tree[1]), base=num(tree[2]))
    return getattr(ex, c)(build(tree[1]))


class Undefined(Exception):
    pass


class Missing(Exception):
    pass


def oracle_eval(tree, point):
    """Value of the tree read as ordinary real arithmetic (strict documented domain)."""
    import mpmath as mp
    mp.mp.dps = 50
    c = tree[0]
    if c == "Constant":
        return mp.mpf(num(tree[1]))
    if c == "Variable":
        if tree[1] not in point:
            raise Missing(tree[1])
        return mp.mpf(point[tree[1]])
    if c == "Add":
        vals = [oracle_eval(t, point) for t in tree[1:]]
        return mp.fsum(vals) if vals else mp.mpf(0)
    if c == "Multiply":
        vals = [oracle_eval(t, point) for t in tree[1:]]
        return mp.fprod(vals) if vals else mp.mpf(1)
    if c in ("Minus", "Divide", "Power"):
        a, b = oracle_eval(tree[1], point), oracle_eval(tree[2], point)
        if c == "Minus":
            return a - b
        if c == "Divide":
            if b == 0:
                raise Undefined("zero denominator")
            return a / b
        if a <= 0:
            raise Undefined("non-positive base of a general power")
        return mp.exp(b * mp.log(a))
    a = oracle_eval(tree[1], point)
    if c == "Negation":
        return -a
    if c == "Reciprocal":
        if a == 0:
            raise Undefined("reciprocal of zero")
        return 1 / a
    if c == "NthPower":
        return a ** int(num(tree[2]))
    if c == "NthRoot":
        n = int(num(tree[2]))
        if n == 1:
            return a
        if a == 0:
            raise Undefined("zero under a root")
        if a < 0:
            if n % 2 == 0:
                raise Undefined("negative under an even root")
            return -mp.root(-a, n)
        return mp.root(a, n)
    if c == "Exponential":
        return mp.exp(a * mp.log(mp.mpf(num(tree[2]))))
    if c == "Logarithm":
        if a <= 0:
            raise Undefined("non-positive logarithm argument")
        return mp.log(a) / mp.log(mp.mpf(num(tree[2])))
    if c == "Sine":
        return mp.sin(a)
    if c == "Cosine":
        return mp.cos(a)
    raise KeyError(c)


def oracle_outcome(tree, point):
    try:
        return ("value", oracle_eval(tree, point))
    except Missing:
        return ("missing",)
    except Undefined as u:
        # an undefined sub-expression wins only if no coordinate is missing on the way
        return ("undefined", str(u))


def oracle_partial(tree, point, x):
    import mpmath as mp
    o = oracle_outcome(tree, point)
    if o[0] != "value":
        return o
    if x not in point:
        # the variable does not occur (otherwise evaluation would have been 'missing')
        return ("value", mp.mpf(0))
    def f(t):
        q = dict(point)
        q[x] = t
        return oracle_eval(tree, q)
    return ("value", mp.diff(f, mp.mpf(point[x])))


def real_outcome(thunk):
    sm, ex = _imports()
    try:
        r = thunk()
    except sm.DomainError as e:
        return ("DomainError", str(e))
    except sm.CoordinateMissing as e:
        return ("CoordinateMissing", str(e))
    except Exception as e:                      # noqa
        return ("other-exception", f"{type(e).__name__}: {e}")
    return ("value", r)


def agree(real, want, tol=1e-7):
    """Does the real outcome satisfy the property given the oracle's outcome?"""
    if want[0] == "value":
        if real[0] != "value":
            return False
        r = real[1]
        if isinstance(r, complex) or not isinstance(r, (int, float)) or r != r or r in (float("inf"), float("-inf")):
            return False
        w = float(want[1])
        return abs(r - w) <= tol * max(1.0, abs(w))
    if want[0] == "undefined":
        return real[0] == "DomainError"
    if want[0] == "missing":
        return real[0] in ("CoordinateMissing", "DomainError")
    return False


def make_point(pt):
    sm, ex = _imports()
    return sm.Point(**{k: num(v) for k, v in pt.items()})


def observe(sc):
    sm, ex = _imports()
    kind = sc["kind"]
    tree = sc.get("tree")
    point = {k: num(v) for k, v in sc.get("point", {}).items()}
    x = sc.get("x")
    obs = []

    def add(label, thunk, want):
        real = real_outcome(thunk)
        obs.append({"observable": label, "real": _show(real), "oracle": _show(want), "ok": agree(real, want)})

    def warmups(e):
        """Earlier operations on the same object graph (C09): evaluate / differentiate at other
        points, including failing ones; errors are ignored."""
        others = []
        for dx in (1.0, -2.5):
            q = {k: v + dx for k, v in point.items()}
            others.append(q)
        others.append({k: 0.0 for k in point})
        for q in others:
            for th in (lambda: e.at(make_point(q)), lambda: sm.Partial(e, x or "x").at(make_point(q)),
                       lambda: sm.LocatedDifferential(e, make_point(q))):
                try:
                    th()
                except Exception:
                    pass

    if kind == "evaluate":
        e = build(tree)
        add("e.at(Point)", lambda: e.at(make_point(point)), oracle_outcome(tree, point))
        e3 = build(tree)
        warmups(e3)
        add("after earlier operations at other points: e.at(Point)", lambda: e3.at(make_point(point)), oracle_outcome(tree, point))
        if "number" in sc:
            e2 = build(tree)
            names = sorted(variables(tree))
            if len(names) <= 1:
                p1 = {names[0]: num(sc["number"])} if names else {}
                add("e.at(number)", lambda: e2.at(num(sc["number"])), oracle_outcome(tree, p1))
    elif kind == "numeric_routes":
        want = oracle_partial(tree, point, x)
        mk = lambda: build(tree)
        P = lambda: make_point(point)
        add("Partial(e,x).at(p)", lambda: sm.Partial(mk(), x).at(P()), want)
        add("Partial(e,Variable(x)).at(p)", lambda: sm.Partial(mk(), ex.Variable(x)).at(P()), want)
        add("LocatedDifferential(e,p).component(x)", lambda: sm.LocatedDifferential(mk(), P()).component(x), want)
        add("Differential(e).at(p).component(x)", lambda: sm.Differential(mk()).at(P()).component(x), want)
        add("Differential(e).component_at(x,p)", lambda: sm.Differential(mk()).component_at(x, P()), want)
        add("Differential(e).component(x).at(p)", lambda: sm.Differential(mk()).component(x).at(P()), want)
        if len(variables(tree)) <= 1 and (not variables(tree) or x in variables(tree)):
            add("Derivative(e).at(p)", lambda: sm.Derivative(mk()).at(P()), want)
        shared = mk()
        warmups(shared)
        add("after earlier operations at other points: Partial(e,x).at(p)", lambda: sm.Partial(shared, x).at(P()), want)
        add("after earlier operations at other points: LocatedDifferential(e,p).component(x)",
            lambda: sm.LocatedDifferential(shared, P()).component(x), want)
        add("after earlier operations at other points: e.at(p)", lambda: shared.at(P()), oracle_outcome(tree, point))
        if sc.get("early") and not sc.get("_wrapped"):
            # the same expression as a non-root node (a non-trivial incoming multiplier in the
            # reverse passes)
            wrapped = ["Multiply", ["Constant", 3], tree]
            sub = observe(dict(sc, tree=wrapped, _wrapped=True))
            for o in sub:
                o["observable"] = "[inside 3 * e] " + o["observable"]
            obs.extend(sub)
        if sc.get("early"):
            add("Partial(e,x,early).at(p)", lambda: sm.Partial(mk(), x, compute_early=True).at(P()), want)
            add("Differential(e,early).component_at(x,p)", lambda: sm.Differential(mk(), compute_early=True).component_at(x, P()), want)
            add("Differential(e,early).at(p).component(x)", lambda: sm.Differential(mk(), compute_early=True).at(P()).component(x), want)
            add("Partial(e,x).as_expression().at(p)", lambda: sm.Partial(mk(), x).as_expression().at(P()),
                want if want[0] == "value" else ("any",))
    else:
        from pyvc import replay_kinds
        replay_kinds.observe(sc, add, build, make_point, oracle_outcome, oracle_partial, point, x)
    return obs


def variables(tree):
    if tree[0] == "Variable":
        return {tree[1]}
    out = set()
    for t in tree[1:]:
        if isinstance(t, list) and t and isinstance(t[0], str) and t[0][:1].isupper():
            out |= variables(t)
    return out


def _show(o):
    if o[0] == "value":
        try:
            return ["value", float(o[1])]
        except Exception:
            return ["value", repr(o[1])]
    return list(o)


def agree_any(real, want):
    return True


_old_agree = agree


def agree(real, want, tol=1e-7):            # noqa: F811
    if want[0] == "any":
        return real[0] in ("value", "DomainError", "CoordinateMissing")
    return _old_agree(real, want, tol)


def order_battery():
    """Run the battery under several hash seeds / spelling orders; digests must agree."""
    import subprocess
    here = os.path.dirname(os.path.abspath(__file__))
    digests = {}
    for seed in ("0", "1", "2", "3", "4", "5", "6", "7"):
        for order in ("0", "1"):
            env = dict(os.environ, PYTHONHASHSEED=seed, BATTERY_ORDER=order)
            p = subprocess.run([sys.executable, os.path.join(here, "order_battery.py")], capture_output=True, text=True, env=env)
            digests[(seed, order)] = (p.stdout.strip() or p.stderr.strip()[-300:])
    distinct = sorted(set(digests.values()))
    for k, v in sorted(digests.items()):
        print(f"  PYTHONHASHSEED={k[0]} spelling-order={k[1]}: {v[:80]}")
    if len(distinct) > 1:
        print("RESULT: violation reproduced on the real code (answers differ across hash seeds / spelling orders)")
        return 1
    print("RESULT: no-failing-input-found")
    return 0


def main(path):
    with open(path) as fh:
        doc = json.load(fh)
    sc = doc["scenario"]
    print(f"replay of obligation {doc['obligation']['name']} (property {doc['property']})")
    if sc is None:
        print("no concrete scenario could be built from the counter-model; solver output is in the file")
        print("RESULT: no-failing-input-found")
        return 0
    if sc.get("kind") == "order_battery":
        return order_battery()
    if sc.get("kind") == "name_battery":
        # which strings does Variable accept?  oracle: non-empty and only word characters
        from smoothmath.expression import Variable
        bad = 0
        for name in ["", "x", "x1", "_", "1", "Xy_9", "x\n", "\nx", "x\t", "a b", "x-y", "x.y", "é", "x\ny", " ", "x "]:
            want = bool(name) and all(ch.isalnum() or ch == "_" for ch in name)
            try:
                Variable(name)
                got = True
            except Exception:
                got = False
            if got != want:
                bad += 1
                print(f"  FAIL Variable({name!r}) accepted={got}, documented={want}")
        print("RESULT: violation reproduced on the real code" if bad else "RESULT: no-failing-input-found")
        return 1 if bad else 0
    if sc.get("kind") == "history_battery":
        import subprocess
        here = os.path.dirname(os.path.abspath(__file__))
        p = subprocess.run([sys.executable, os.path.join(here, "history_battery.py")], capture_output=True, text=True)
        print(p.stdout + p.stderr[-500:])
        if p.returncode == 1:
            print("RESULT: violation reproduced on the real code (an answer depends on earlier operations)")
            return 1
        print("RESULT: no-failing-input-found")
        return 0
    obs = observe(sc)
    bad = [o for o in obs if not o["ok"]]
    if not bad and sc.get("kind") in ("evaluate", "numeric_routes", "reducer", "method_refines") and sc.get("point"):
        # the counter-model itself did not misbehave: try inputs near it (same tree, the
        # coordinates shifted; the oracle is recomputed for every input)
        for shift in (0.37, -1.21, 2.5, -0.5, 1.0):
            sc2 = dict(sc, point={k: num(v) + shift for k, v in sc["point"].items()})
            obs2 = observe(sc2)
            if any(not o["ok"] for o in obs2):
                for o in obs2:
                    o["observable"] = f"[coordinates shifted by {shift}] " + o["observable"]
                obs, bad = obs2, [o for o in obs2 if not o["ok"]]
                break
    for o in obs:
        print(("  FAIL " if not o["ok"] else "  ok   ") + json.dumps(o))
    if bad:
        print("RESULT: violation reproduced on the real code")
        return 1
    print("RESULT: no-failing-input-found")
    return 0


if __name__ == "__main__":
    sys.path.insert(0, os.path.dirname(os.path.dirname(os.path.abspath(__file__))))
    try:
        code = main(sys.argv[1])
    except Exception:
        import traceback
        traceback.print_exc()
        print("RESULT: replay crashed (not a reproduction)")
        code = 3
    sys.exit(code)
