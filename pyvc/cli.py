"""./check <ID> [--tier quick|thorough]   |   ./check replay <path>   |   ./check list"""
from __future__ import annotations
import argparse, json, os, sys, time, hashlib, subprocess
from . import engine
from .engine import EXIT_OK, EXIT_VIOLATION, EXIT_UNDECIDED, EXIT_ENGINE, VERIF

PROPERTY_LEVEL = {
    "C18": "other",
}

CHECKER_CMD = "python3-vt -m pyvc.cli {prop} --tier {tier}  (pyvc: AST->VC generator over /repo/src; z3 5.1 Python API, cvc5 1.4 for z3 unknowns)"

TRUSTED_BASE = [
    "pyvc symbolic executor (pyvc/interp.py) and its Python-subset semantics (DESIGN §2.2)",
    "builtin contracts for Python builtins and math (pyvc/builtin_contracts.py)",
    "specification tables D/V/dV/Vars (pyvc/spec.py), written from the property statements",
    "ground real-analysis axiom schemas (pyvc/axioms.py)",
    "z3 5.1.0 / cvc5 1.4.0",
]


def all_specs(prog, tier):
    from .families import registry
    return registry.all_specs(prog, tier)


def canary():
    """An obligation that must be refuted: a deliberately false post-condition on mf.minus."""
    import z3
    from . import solver
    x, y = z3.Reals("x y")
    v = solver.prove([], (x - y) == (y - x), timeout_ms=5000)
    return v.status == "failed"


def run_property(prop, tier, seed, jobs=None, only=None, verbose=False):
    from .loader import Program
    t0 = time.time()
    prog = Program()
    def spec_selected(s):
        if prop in s.props:
            return True
        return any(q in s.props and not same_family and spred(s.name) for q, _pred, same_family, spred in IMPORTS.get(prop, []))
    specs = [s for s in all_specs(prog, tier) if spec_selected(s) and (tier == "thorough" or s.quick)]
    if only:
        specs = [s for s in specs if only in s.name]
    if not specs:
        print(f"ENGINE-ERROR: no obligation families registered for {prop}")
        return EXIT_ENGINE
    if not canary():
        print("ENGINE-ERROR: canary obligation was not refuted")
        return EXIT_ENGINE
    spec_sanity = None
    if tier == "thorough" and prop in ("C01", "C02", "C03", "C04", "C05") and not only:
        # sanity (never evidence): the spec tables against the real library and the replay oracle
        import io, contextlib
        from . import speccheck
        buf = io.StringIO()
        with contextlib.redirect_stdout(buf):
            rc = speccheck.main(250, seed)
        spec_sanity = buf.getvalue().strip().splitlines()[-1]
        if rc != 0:
            print(buf.getvalue())
            print("ENGINE-ERROR: the specification tables disagree with the real library / the replay oracle")
            return EXIT_ENGINE
    results, prog = engine.run_specs(specs, tier=tier, seed=seed, jobs=jobs, prog=prog)
    known = engine.load_known_findings()
    obls, errors, unsupported, notes = [], [], [], []
    functions = set()
    solver_s = 0.0
    backends = {}
    # helper contracts: a symbolic-arity family that used the contract of a helper stands only
    # if the helper's own family (same run) established that contract
    HELPER_FAMILIES = {"math_functions.multiply": ["math_functions.multiply[any arity]"],
                       "utilities.list_without_entry_at": ["utilities.list_without_entry_at[any length]"],
                       "utilities.list_with_updated_entry_at": ["utilities.list_with_updated_entry_at[any length]"],
                       "utilities.partition_by_predicate": ["utilities.partition_by_predicate[any length]"],
                       "utilities.first_match_by_predicate": ["utilities.first_match_by_predicate[any length]"],
                       "NAryExpression.__init__": ["Add[any arity].__init__", "Multiply[any arity].__init__"]}
    by_name = {r["family"]: r for r in results}

    def established(fname):
        r0 = by_name.get(fname)
        return r0 is not None and not r0["error"] and r0["obls"] and all(o["status"] == "proved" for o in r0["obls"])
    unestablished = {h for h, fams in HELPER_FAMILIES.items() if not all(established(f) for f in fams)}
    for r in results:
        if r.get("optional") and not r["error"]:
            missing = sorted(set(r.get("helpers") or []) & unestablished)
            if missing and r["family"] not in sum(HELPER_FAMILIES.values(), []):
                r = dict(r, error=f"unsupported: the contract of {missing[0]} that this proof uses is not established for the current code "
                                  f"(see the helper's own family)", obls=[])
        if r.get("optional") and not r["error"]:
            # a sidecar loop invariant that is not inductive for the current loop body does not
            # refute the code (the invariant may simply not fit a rewritten loop): the
            # unbounded-arity proof is then not available and everything else this family
            # derived from the invariant is void; the bounded-arity families decide
            bad_inv = [o["name"] for o in r["obls"] if "/loop-invariant:" in o["name"] and o["status"] != "proved"]
            if bad_inv and not os.environ.get("PYVC_G_STRICT"):
                r = dict(r, error=f"unsupported: sidecar loop invariant not established for the current loop ({bad_inv[0].split('/', 1)[1]})", obls=[])
            else:
                # symbolic-arity obligations are discharged with hand-instantiated quantified
                # facts: an undischarged one is "no proof found", not a refutation (a model of
                # the ground instances need not be a model of the facts).  Only the proofs that
                # go through are used; otherwise the bounded-arity families decide the method.
                open_ = [o["name"] for o in r["obls"] if o["status"] != "proved"]
                if open_ and not bad_inv and not os.environ.get("PYVC_G_STRICT"):
                    r = dict(r, error=f"unsupported: no unbounded-arity proof found ({open_[0].split('/', 1)[1]} not discharged)", obls=[])
        if r["error"] and r.get("optional") and r["error"].startswith("unsupported"):
            r = dict(r, obls=[])          # a partial symbolic-arity proof proves nothing for all arities
            notes.append(f"NOTE {prop} {r['family']}: unbounded-arity proof not applicable to the current code shape "
                         f"({r['error'][:120]}); the bounded-arity families decide this method")
        elif r["error"]:
            (unsupported if r["error"].startswith("unsupported") else errors).append((r["family"], r["error"]))
            # obligations of the variants that did run are still judged
        functions.update(r["functions"])
        for o in r["obls"]:
            # an unexpected exception / a non-number result invalidates every property the family serves
            escapes = prop in r["props"] and _re.search(r"/(no-other-exception|no-exception|returns-number|returns-expression)@", o["name"]) is not None
            if prop in o["props"] or escapes or any(q in o["props"] and pred(o["name"]) and ((same_family and prop in r["props"]) or
                                                                                           (not same_family and _sp(r["family"])))
                                                    for q, pred, same_family, _sp in IMPORTS.get(prop, [])):
                o["family"] = r["family"]
                obls.append(o)
                solver_s += (o["ms"] or 0) / 1000.0
                backends[o["backend"]] = backends.get(o["backend"], 0) + 1
    exit_code = EXIT_OK
    lines = list(notes)
    for fam, err in errors:
        lines.append(f"ENGINE-ERROR: {fam}: {err.strip().splitlines()[-1]}")
        if verbose:
            lines.append(err)
        exit_code = EXIT_ENGINE
    for fam, err in unsupported:
        lines.append(f"UNDECIDED {prop} {fam}: {err}")
        exit_code = max(exit_code, EXIT_UNDECIDED) if exit_code != EXIT_ENGINE else exit_code
    failed = [o for o in obls if o["status"] == "failed"]
    unknown = [o for o in obls if o["status"] == "unknown"]
    proved = [o for o in obls if o["status"] == "proved"]
    violations = 0
    known_hits = []
    from . import replay
    seen_kf = set()
    replays_run, any_reproduced = 0, False
    for o in failed:
        kf = engine.match_known(known.get("findings", []), prop, o)
        if kf is not None:
            key = (kf["property"], kf["obligation"], kf.get("case"))
            if key not in seen_kf:
                seen_kf.add(key)
                lines.append(f"KNOWN-FINDING: property={prop} {kf['what_fails']}")
            known_hits.append(o["name"])
            continue
        # every failing obligation is reported; at most MAX_REPLAYS of them are replayed on the
        # real code (the rest carry the scenario file only)
        if replays_run < MAX_REPLAYS or (not any_reproduced and replays_run < 2 * MAX_REPLAYS):
            path, reproduced = replay.write_and_run(prop, o, prog)
            replays_run += 1
            any_reproduced = any_reproduced or reproduced
        else:
            path, reproduced = replay.write_only(prop, o), False
        mk = _re.search(r"\[k=(\d+)\]", o["name"])
        if not reproduced and mk and int(mk.group(1)) > (3 if tier == "quick" else 4):
            # an arity beyond the validated range (families added because the code compares a length
            # against a larger constant): the ground instantiation of the real-analysis facts is no
            # longer known to be complete enough there (at k = 5 the unchanged logarithm rule already
            # has a spurious counter-model), so an unreproduced refutation is undecided, not a violation
            lines.append(f"UNDECIDED {prop} {o['name']}: refuted only at an arity beyond the validated range and not reproduced on the real code (replay {path})")
            exit_code = max(exit_code, EXIT_UNDECIDED) if exit_code != EXIT_ENGINE else exit_code
            continue
        if not reproduced and o.get("weak"):
            # refuted only under an uninterpreted model of a standard-library function, and the
            # real code did not reproduce it: undecided, not a violation
            lines.append(f"UNDECIDED {prop} {o['name']}: fails only under an uninterpreted model of {', '.join(o['weak'])} and did not reproduce on the real code (replay {path})")
            exit_code = max(exit_code, EXIT_UNDECIDED) if exit_code != EXIT_ENGINE else exit_code
            continue
        violations += 1
        tail = "" if reproduced else " no-failing-input-found"
        lines.append(f"VIOLATION property={prop} replay={path}{tail}")
        lines.append(f"  failed obligation: {o['name']}  ({o.get('info') or ''})")
    if violations:
        exit_code = EXIT_VIOLATION
    elif unknown and exit_code == EXIT_OK:
        exit_code = EXIT_UNDECIDED
    for o in unknown:
        lines.append(f"UNDECIDED {prop} {o['name']}: solver unknown ({o.get('reason')})")
    min_obl = MIN_OBLIGATIONS.get(prop, 1)
    if len(obls) < min_obl and not only and exit_code == EXIT_OK:
        lines.append(f"ENGINE-ERROR: vacuity guard: {len(obls)} obligations for {prop}, expected at least {min_obl}")
        exit_code = EXIT_ENGINE
    kf_names = set(known_hits)
    unbounded = [o for o in obls if not o["bounded"] and o["name"] not in kf_names]
    bounded = [o for o in obls if o["bounded"] and o["name"] not in kf_names]
    wall = time.time() - t0
    level = PROPERTY_LEVEL.get(prop, "proof")
    samples = [{k: o[k] for k in ("name", "status", "backend", "ms", "bounded", "path")} for o in (failed[:3] + proved[:5])]
    ev = {
        "property_id": prop, "tier": tier, "seed": seed, "level": level,
        "coverage": {
            "obligations": len(unbounded),
            "discharged": len([o for o in unbounded if o["status"] == "proved"]),
            "bounded_obligations": len(bounded),
            "bounded_discharged": len([o for o in bounded if o["status"] == "proved"]),
            "bounded_note": "obligations proved for one fixed arity of Add/Multiply (outer arity <= K, nested <= J) are complete for that arity only; they are listed here and never counted under `discharged`",
            "checker_cmd": CHECKER_CMD.format(prop=prop, tier=tier),
            "trusted_base": TRUSTED_BASE,
            "families": len(specs),
            "paths_explored": sum(r["paths"] for r in results),
            "functions_under_contract": sorted(functions),
            "backends": backends,
            "solver_seconds": round(solver_s, 2),
            "failed": [o["name"] for o in failed],
            "undecided": [o["name"] for o in unknown] + [f for f, _ in unsupported],
            "known_findings_matched": known_hits,
            "known_finding_obligations": len(known_hits),
            "cvc5_second_opinion": {k: sum((r.get("extra") or {}).get(k, 0) for r in results)
                                    for k in ("cvc5_agree", "cvc5_no_opinion", "cvc5_disagree")} if tier == "thorough" else "thorough tier only",
            "static_analysis_sites": {r["family"]: r["extra"] for r in results if (r.get("extra") or {}).get("sites")},
            "spec_sanity_crosscheck": spec_sanity or "thorough tier of C01-C05 only",
            "lean_lemmas": __import__("pyvc.lemmas", fromlist=["status"]).status(),
            "arity_bounds": {"outer_K": 4 if tier == "thorough" else 3, "nested_J": 3 if tier == "thorough" else 2},
            "source_sha256": prog.source_hashes(),
            "samples": samples,
            "explanation": "every obligation is generated from the AST of /repo/src on this run and discharged by SMT; see DESIGN.md",
            "evaluations": len(obls),
            "distinct_nontrivial": len({o["name"] for o in obls}),
            "rule": "one obligation per (family, clause, path); all are distinct by name; trivial (syntactically true) goals are still counted by the solver as proved",
        },
        "assumptions": engine.ASSUMPTIONS + EXTRA_ASSUMPTIONS.get(prop, []),
        "wall_s": round(wall, 2),
        "violations": violations,
    }
    if not os.environ.get("PYVC_NO_EVIDENCE") and not only:
        os.makedirs(os.path.join(VERIF, "evidence"), exist_ok=True)
        with open(os.path.join(VERIF, "evidence", f"{prop}.json"), "w") as fh:
            json.dump(ev, fh, indent=1, sort_keys=True)
    slow = sorted(results, key=lambda r: -r["wall_s"])[:4]
    lines.append("slowest families: " + ", ".join(f"{r['family']} {r['wall_s']}s ({r['paths']} paths)" for r in slow))
    for l in lines:
        print(l)
    print(f"{prop} tier={tier}: families={len(specs)} obligations={len(obls)} proved={len(proved)} "
          f"(unbounded {ev['coverage']['discharged']}/{ev['coverage']['obligations']}, bounded-arity "
          f"{ev['coverage']['bounded_discharged']}/{ev['coverage']['bounded_obligations']}) failed={len(failed)} "
          f"known={len(known_hits)} undecided={len(unknown) + len(unsupported)} wall={wall:.1f}s exit={exit_code}")
    return exit_code


import re as _re

# C10's "every existing object still evaluates like a freshly built copy" rests on the memo
# protocol of C09: those obligations are imported into the C10 check
_memo = lambda name: _re.search(r"/memo:", name) is not None
IMPORTS = {
    # property -> [(property the obligation is tagged with, name predicate, only from
    #               families that themselves serve this property)]
    "C10": [("C09", lambda name: _re.search(r"memo|_reset_evaluation_cache|history\[", name) is not None, False, lambda fam: True),
            # derivative objects too must keep answering like a fresh copy after as_expression()
            ("C06", lambda name: True, False, lambda fam: _re.match(r"(route\[|Partial\.at\[|Derivative\.at\[|Differential[\[(]|LocatedDifferential\.component)", fam) is not None),
            ("C07", lambda name: True, False, lambda fam: _re.match(r"(route\[|Partial\.at\[|Derivative\.at\[|Differential[\[(]|LocatedDifferential\.component)", fam) is not None)],
    # ... and conversely C09's families describe an existing object by what its constructor
    # stored: that is only right if nothing rewrites structural fields or containers afterwards,
    # which is the frame condition of C10 (static sites + the heap log of the paths C09 explores)
    # a derivative object is late, early, or late-and-switched by an earlier as_expression():
    # which of these it is *is* its history, so "the same answer whatever the history" for these
    # objects is that every variant meets the one route contract (the C06 / C07 obligations)
    "C09": [("C06", lambda name: True, False, lambda fam: _re.match(r"(route\[|Partial\.at\[|Derivative\.at\[|Differential[\[(]|LocatedDifferential\.component)", fam) is not None),
            ("C07", lambda name: True, False, lambda fam: _re.match(r"(route\[|Partial\.at\[|Derivative\.at\[|Differential[\[(]|LocatedDifferential\.component)", fam) is not None),
            ("C10", lambda name: name.startswith("frame/"), False, lambda fam: fam == "frame-analysis"),
            ("C10", lambda name: "/frame:" in name, True, lambda fam: False)],
    # the memo pre-condition of the evaluation-family methods is what makes the value / raise
    # post-conditions of the public entries true on every history: import it where it is used
    # C06 (all routes agree) is the corollary of the route contracts AND of the per-class
    # obligations those contracts rest on (C03 forward, C04 reverse, C05 symbolic, C07 raising)
    "C06": [("C09", _memo, True, lambda fam: False),
            ("C09", lambda name: "._reset_evaluation_cache/" in name, False, lambda fam: fam.endswith("._reset_evaluation_cache")),
            ("C03", lambda name: True, False, lambda fam: True), ("C04", lambda name: True, False, lambda fam: True),
            ("C05", lambda name: True, False, lambda fam: True), ("C07", lambda name: True, False, lambda fam: True)],
    # C01 / C03 (bare numbers for one-variable expressions) rest on the constructors' Vars contract
    # C13's "evaluating the printed text yields an object *equal* to the original" is the
    # structural round trip plus the contract of the real __eq__ (C12) it is observed through
    "C13": [("C12", lambda name: ".__eq__" in name, False, lambda fam: fam.endswith(".__eq__"))],
    "C01": [("C09", _memo, True, lambda fam: False),
            ("C09", lambda name: "._reset_evaluation_cache/" in name, False, lambda fam: fam.endswith("._reset_evaluation_cache")),
            ("C14", lambda name: ".__init__" in name, False, lambda fam: fam.endswith(".__init__"))],
    "C03": [("C09", _memo, True, lambda fam: False),
            ("C09", lambda name: "._reset_evaluation_cache/" in name, False, lambda fam: fam.endswith("._reset_evaluation_cache")),
            ("C14", lambda name: ".__init__" in name, False, lambda fam: fam.endswith(".__init__"))],
    # C17 / C08: code downstream of the constructors relies on their contracts (the stored degree
    # is a Python int, Vars is the union of the children's): import the constructor obligations
    "C17": [("C14", lambda name: ".__init__" in name, False, lambda fam: fam.endswith(".__init__")),
            ("C16", lambda name: ".__init__" in name, False, lambda fam: fam.endswith(".__init__"))],
    "C08": [("C16", lambda name: "n-stored-as-int" in name, False, lambda fam: fam.endswith(".__init__"))],
    # ... and the contract of _reset_evaluation_cache (used at every public entry) is proved by
    # its own per-class families
    **{p: [("C09", _memo, True, lambda fam: False),
           ("C09", lambda name: "._reset_evaluation_cache/" in name, False, lambda fam: fam.endswith("._reset_evaluation_cache"))]
       for p in ("C02", "C04", "C05", "C07", "C14")},
}
# Every property that speaks about "the expression" (what it evaluates to, what its derivatives
# are, what it equals, how it prints) is proved for objects described by what their constructor
# stored: each of these proofs rests on the frame condition of C10 - nothing rewrites a structural
# field or a container of an existing object - so the static frame sites are imported into all of them.
for _p in ("C01", "C02", "C03", "C04", "C05", "C06", "C07", "C08", "C12", "C13", "C14"):
    IMPORTS.setdefault(_p, [])
    IMPORTS[_p] = list(IMPORTS[_p]) + [("C10", lambda name: name.startswith("frame/"), False, lambda fam: fam == "frame-analysis")]
MAX_REPLAYS = 12
MIN_OBLIGATIONS = {}
EXTRA_ASSUMPTIONS = {}


def main(argv=None):
    ap = argparse.ArgumentParser(prog="check")
    ap.add_argument("what")
    ap.add_argument("path", nargs="?")
    ap.add_argument("--tier", default=os.environ.get("VERIF_TIER", "quick"))
    ap.add_argument("--jobs", type=int, default=None)
    ap.add_argument("--only", default=None)
    ap.add_argument("-v", action="store_true")
    a = ap.parse_args(argv)
    seed = int(os.environ.get("VERIF_SEED", "0") or 0)
    if a.what == "replay":
        from . import replay
        return replay.run_file(a.path)
    if a.what == "speccheck":
        from . import speccheck
        return speccheck.main(int(a.path) if a.path else 300, seed)
    if a.what == "lemmas":
        from . import lemmas
        return lemmas.main()
    if a.what == "benign":
        from . import selftest
        return selftest.benign(a.only)
    if a.what == "selftest":
        from . import selftest
        return selftest.main(a.only)
    if a.what == "list":
        from .loader import Program
        prog = Program()
        for s in all_specs(prog, a.tier):
            print(s.name, sorted(s.props))
        return 0
    return run_property(a.what, a.tier, seed, jobs=a.jobs, only=a.only, verbose=a.v)


if __name__ == "__main__":
    try:
        code = main()
    except SystemExit:
        raise
    except BaseException:          # never let a crash look like a violation (exit 1)
        import traceback
        traceback.print_exc()
        print("ENGINE-ERROR: the checker itself crashed (see traceback); no verdict")
        code = EXIT_ENGINE
    sys.exit(code)
