"""Symbolic values handled by the interpreter.

Concrete Python ints / floats / bools / strs / None / lists / tuples / dicts are used as they
are whenever a value is concrete; the classes below cover the symbolic cases.
"""
from __future__ import annotations
import z3
from fractions import Fraction
from . import sym


class SNum:
    """A symbolic number.  term is Int- or Real-sorted; pyint tells whether the *Python*
    object is an int (True), a float (False) or unknown (a z3 Bool)."""
    __slots__ = ("term", "pyint")

    def __init__(self, term, pyint):
        self.term = term
        self.pyint = pyint

    def __repr__(self):
        return f"SNum({self.term}, pyint={self.pyint})"


class RangedIndex(SNum):
    """An int produced by enumerate() over a symbolic-length list: 0 <= term < length holds
    wherever the element function that mentions it is used."""
    __slots__ = ("length",)

    def __init__(self, term, length):
        SNum.__init__(self, term, True)
        self.length = length


class SName:
    """A string used as a variable / coordinate name (uninterpreted)."""
    __slots__ = ("term",)

    def __init__(self, term):
        self.term = term

    def __repr__(self):
        return f"SName({self.term})"


class SStr:
    """A string built from literal pieces (str) and opaque pieces (tuples)."""
    __slots__ = ("parts",)

    def __init__(self, parts):
        out = []
        for p in parts:
            if isinstance(p, str):
                if p == "":
                    continue
                if out and isinstance(out[-1], str):
                    out[-1] += p
                    continue
            out.append(p)
        self.parts = out

    def __repr__(self):
        return f"SStr({self.parts})"


def str_parts(v):
    if isinstance(v, str):
        return [v] if v else []
    if isinstance(v, SStr):
        return list(v.parts)
    raise TypeError(v)


def str_concat(*vs):
    parts = []
    for v in vs:
        parts += str_parts(v)
    s = SStr(parts)
    if all(isinstance(p, str) for p in s.parts):
        return "".join(s.parts)
    return s


class SSet:
    """An unordered set of names (term: Array Name Bool).  The object is mutable (|= updates
    the term in place), so aliasing of set objects is visible."""
    __slots__ = ("term", "owner")

    def __init__(self, term, owner=None):
        self.term = term
        self.owner = owner

    def __repr__(self):
        return f"SSet({self.term})"


class SMap:
    """A dict from names to numbers or objects.

    Numbers: vals is a z3 Array Name->Real.  Objects: vals is a python callable is not
    possible, so object maps are kept as association lists (see SAssoc)."""
    __slots__ = ("present", "vals", "kind")

    def __init__(self, present, vals):
        self.present = present
        self.vals = vals

    def __repr__(self):
        return f"SMap({self.present}, {self.vals})"


class SAssoc:
    """A dict as an ordered association list [(key, value)], keys may be symbolic; the
    entries are pairwise distinct keys by construction (insertion forks on equality)."""
    __slots__ = ("items", "fresh")

    def __init__(self, items=None):
        self.items = list(items or [])

    def __repr__(self):
        return f"SAssoc({self.items})"


class Obj:
    """A heap object."""
    _count = 0

    def __init__(self, cls, name, kind="object"):
        self.cls = cls            # ClassInfo, BuiltinClass or None (unknown expression class)
        self.fields = {}
        self.ghost = {}
        self.name = name          # access path, used to name symbols
        self.kind = kind          # 'object' | 'child' | 'foreign' | 'exception'
        self.in_init = False
        self.alloc_frame = None

    def __repr__(self):
        c = self.cls.name if self.cls is not None else "?"
        return f"<{c} {self.name}>"


class BuiltinClass:
    def __init__(self, name, exception=False):
        self.name = name
        self.exception = exception

    def __repr__(self):
        return f"<builtin class {self.name}>"


class ClassRef:
    """A class used as a value (ex.Negation, self.__class__ ...)."""
    def __init__(self, cls):
        self.cls = cls            # ClassInfo | BuiltinClass

    def __repr__(self):
        return f"ClassRef({self.cls.name})"


class SymClass:
    """`.__class__` of an unknown-class object: a symbolic class tag."""
    def __init__(self, obj):
        self.obj = obj


class ModuleRef:
    def __init__(self, kind, target):
        self.kind = kind          # 'repo' | 'ext'
        self.target = target      # ModuleInfo | str

    def __repr__(self):
        return f"ModuleRef({self.target if self.kind == 'ext' else self.target.name})"


class Closure:
    def __init__(self, funcdef, env, node=None, name=None):
        self.funcdef = funcdef    # FuncDef or None for lambdas
        self.env = env            # enclosing Env (None for module-level functions)
        self.node = node          # ast.Lambda for lambdas
        self.name = name or (funcdef.qualname if funcdef else "<lambda>")

    def __repr__(self):
        return f"<closure {self.name}>"


class BoundMethod:
    def __init__(self, obj, funcdef):
        self.obj = obj
        self.funcdef = funcdef

    def __repr__(self):
        return f"<bound {self.funcdef.qualname} of {self.obj}>"


class ContractMethod:
    """A method of an object whose behaviour is given by its contract, not its body."""
    def __init__(self, obj, name):
        self.obj = obj
        self.name = name

    def __repr__(self):
        return f"<contract {self.name} of {self.obj}>"


class Builtin:
    def __init__(self, name, fn):
        self.name = name
        self.fn = fn

    def __repr__(self):
        return f"<builtin {self.name}>"


class Opaque:
    """A value we never look into (typing helpers, loggers ...)."""
    def __init__(self, what):
        self.what = what

    def __repr__(self):
        return f"Opaque({self.what})"


class Arb:
    """An arbitrary value left in a field by earlier operations (state that a constructor does
    not determine): it may be None, may compare equal to anything, may be truthy or not."""
    def __init__(self, tag):
        self.tag = tag

    def __repr__(self):
        return f"Arb({self.tag})"


class GeneratorList(list):
    """A generator expression, evaluated eagerly at creation (see DESIGN §2.2)."""
    pass


def num_term(v):
    """z3 term (Int or Real) for a concrete or symbolic number."""
    if isinstance(v, SNum):
        return v.term
    if isinstance(v, bool):
        raise TypeError("bool used as number")
    if isinstance(v, int):
        return z3.IntVal(v)
    if isinstance(v, float):
        if v != v or v in (float("inf"), float("-inf")):
            raise TypeError("non-finite float")
        fr = Fraction(v)
        return z3.RealVal(f"{fr.numerator}/{fr.denominator}")
    raise TypeError(f"not a number: {v!r}")


def is_num(v):
    return isinstance(v, SNum) or (isinstance(v, (int, float)) and not isinstance(v, bool))


def real_term(v):
    return sym.to_real(num_term(v))


def py_is_int(v):
    """True / False / z3 Bool: is the Python object an int?"""
    if isinstance(v, SNum):
        return v.pyint
    return isinstance(v, int)


def mk_num(term, pyint):
    """Build a number value, folding to a concrete Python number where possible."""
    term = z3.simplify(term)
    if pyint is True and z3.is_int_value(term):
        return term.as_long()
    if pyint is False and (z3.is_rational_value(term) or z3.is_int_value(term)):
        fr = term.as_fraction() if z3.is_rational_value(term) else Fraction(term.as_long())
        f = float(fr)
        if Fraction(f) == fr:
            return f
    return SNum(term, pyint)
