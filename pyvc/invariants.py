"""Sidecar loop invariants for G-mode (lists of symbolic length), keyed by function and loop
ordinal (the n-th `for` statement of the function in source order) - never by line number.

A loop `for x in L: body` with invariant Inv(j) (the state at the start of iteration j) is
verified as:  Inv(0) holds on entry;  from an arbitrary state satisfying Inv(j), 0 <= j < len(L),
the body either leaves the function (return / raise: a genuine outcome, checked against the
function's post-condition) or re-establishes Inv(j+1);  after the loop Inv(len(L)) holds.
"""
from __future__ import annotations
import ast
import z3
from . import sym, spec, gmode
from .gmode import SList, qm
from .values import *


class LoopChecked(Exception):
    """End of a path that only checked one arbitrary iteration of a loop."""


def loop_ordinal(fd, st):
    fors = [n for n in ast.walk(fd.node) if isinstance(n, ast.For)]
    fors.sort(key=lambda n: (n.lineno, n.col_offset))
    for i, n in enumerate(fors):
        if n is st:
            return i
    return None


def lookup(I, st):
    fd = I.frames[-1].funcdef if I.frames else None
    if fd is None:
        return None
    return REGISTRY.get((fd.qualname, loop_ordinal(fd, st)))


def run_loop(I, sl, st, env, inv):
    from .interp import Env
    inv.on_entry(I, env, sl, st)
    mode = I.path.choose([z3.BoolVal(True), z3.BoolVal(True)], f"loop@{st.lineno}:iteration/after")
    if mode == 0:
        j = z3.Int(I.path.fresh_name(f"j!loop@{st.lineno}"))
        I.path.assume(z3.And(j >= 0, j < sl.length))
        qm(I).add_index(j, sl.length)
        inv.assume_at(I, env, sl, st, j)
        I.assign(st.target, inv.element(I, sl, j), env)
        I.exec_block(st.body, env)
        inv.check_at(I, env, sl, st, j + 1)
        raise LoopChecked()
    inv.assume_at(I, env, sl, st, sl.length)
    return True


def _accumulator_name(st, op):
    """The local that the loop body updates with `name op= ...` (names are not hard-wired, so
    renaming locals does not disturb the invariant)."""
    from .interp import Unsupported
    names = {n.target.id for n in ast.walk(st) if isinstance(n, ast.AugAssign) and isinstance(n.op, op)
             and isinstance(n.target, ast.Name)}
    if len(names) != 1:
        raise Unsupported("G-mode: the loop has no unique `name op= value` accumulator")
    return names.pop()


class MultiplyLoop:
    """math_functions.multiply:  product == prod_{i<j} args[i]  and  args[i] != 0 for i < j."""
    def body(self, I, sl):
        return lambda t: real_term(sl.elem(t))

    def var(self, st):
        return _accumulator_name(st, ast.Mult)

    def element(self, I, sl, j):
        return sl.elem(j)

    def on_entry(self, I, env, sl, st):
        f = self.body(I, sl)
        from .interp import Unsupported
        p0 = env.vars.get(self.var(st))
        if not is_num(p0):
            raise Unsupported("G-mode: the product accumulator is not initialised before the loop")
        I.path.require(real_term(p0) == gmode.bigprod(I, f, z3.IntVal(0)), "loop-invariant:multiply/initially")
        gmode.register_zero_lemma(I, f, sl.length)
        gmode.bigprod(I, f, sl.length)      # the whole product is in play on every path (links of its body: cons lemma)

    def assume_at(self, I, env, sl, st, j):
        f = self.body(I, sl)
        env.vars[self.var(st)] = SNum(gmode.bigprod(I, f, j), False)
        qm(I).foralls.append((j, lambda t: f(t) != 0))

    def check_at(self, I, env, sl, st, j1):
        f = self.body(I, sl)
        I.path.require(real_term(env.vars[self.var(st)]) == gmode.bigprod(I, f, j1), "loop-invariant:multiply/product-preserved")
        s = z3.Int(I.path.fresh_name("s!nonzero"))
        qm(I).add_index(s, sl.length)
        I.path.require(z3.Implies(z3.And(s >= 0, s < j1), f(s) != 0), "loop-invariant:multiply/no-zero-so-far-preserved",
                       qfacts=True)


class AccumulateLoop:
    """Add._compute_numeric_partials:  acc.get(n,0) == acc0.get(n,0) + m * sum_{i<j} dV_i(n)  for
    every name n, and every child so far returned (is defined at the point)."""
    def element(self, I, sl, j):
        return sl.elem(j)

    def _parts(self, I, env):
        # the parameters by position (self, accumulator, multiplier, point): names may change
        fd = I.frames[-1].funcdef
        names = [a.arg for a in fd.node.args.args]
        from .interp import Unsupported
        if len(names) != 4:
            raise Unsupported("G-mode: unexpected signature of _compute_numeric_partials")
        return env.vars[names[1]], env.vars[names[2]], env.vars[names[3]]

    def on_entry(self, I, env, sl, st):
        acc, m, pt = self._parts(I, env)
        I.ghost["accloop"] = {"old": acc.fields["_numeric_partials"]}
        self.check_at(I, env, sl, st, z3.IntVal(0))          # the invariant holds on entry

    def _view(self, I, env, sl, j):
        from .contracts import acc_view
        acc, m, pt = self._parts(I, env)
        old = I.ghost["accloop"]["old"]
        fam = sl.family
        mt = real_term(m)
        return lambda n: z3.simplify(acc_view(I, old, n) + mt * gmode.bigsum(I, lambda t: spec.den(I, fam.child(I, t), pt).dV(n), j))

    def assume_at(self, I, env, sl, st, j):
        from .builtin_contracts import SDict, ViewBase
        acc, m, pt = self._parts(I, env)
        fam = sl.family
        acc.fields["_numeric_partials"] = SDict(base=ViewBase(self._view(I, env, sl, j), f"acc@{j}"))
        qm(I).foralls.append((j, lambda t: spec.den(I, fam.child(I, t), pt).D))

    def check_at(self, I, env, sl, st, j1):
        from .contracts import acc_view
        acc, m, pt = self._parts(I, env)
        fam = sl.family
        want = self._view(I, env, sl, j1)
        for n in I.ghost.get("ambient_names", []):
            I.path.require(acc_view(I, acc.fields["_numeric_partials"], n) == want(n),
                           "loop-invariant:accumulate/accumulator-preserved", qfacts=True)
        s = z3.Int(I.path.fresh_name("s!defined"))
        qm(I).add_index(s, sl.length)
        I.path.require(z3.Implies(z3.And(s >= 0, s < j1), spec.den(I, fam.child(I, s), pt).D),
                       "loop-invariant:accumulate/children-so-far-defined", qfacts=True)


class MultiplyAccumulateLoop(AccumulateLoop):
    """Multiply._compute_numeric_partials (a loop over enumerate(children)):
    acc.get(n,0) == acc0.get(n,0) + m * sum_{i<j} dV_i(n) * prod_{u != i} V_u."""
    def _view(self, I, env, sl, j):
        from .contracts import acc_view
        acc, m, pt = self._parts(I, env)
        old = I.ghost["accloop"]["old"]
        fam = sl.family
        mt = real_term(m)
        dk = lambda t: spec.den(I, fam.child(I, t), pt)
        return lambda n: z3.simplify(acc_view(I, old, n) + mt * gmode.bigsum(
            I, lambda t: dk(t).dV(n) * gmode.bigprod_without(I, lambda u: dk(u).V, t, fam.length), j))


class SynthAccumulateLoop:
    """Add._compute_synthetic_partials: after j iterations the accumulator is in the state the
    contract prescribes for the virtual node Add(c_0 .. c_{j-1}) (the prefix of the children)."""
    def element(self, I, sl, j):
        return sl.elem(j)

    def _parts(self, I, env):
        fd = I.frames[-1].funcdef
        names = [a.arg for a in fd.node.args.args]
        from .interp import Unsupported
        if len(names) != 3:
            raise Unsupported("G-mode: unexpected signature of _compute_synthetic_partials")
        return env.vars[names[0]], env.vars[names[1]], env.vars[names[2]]

    def prefix(self, I, slf, sl, j):
        """The virtual node made of the first j children (same class as self)."""
        key = z3.simplify(j).get_id() if z3.is_expr(j) else j
        cache = I.ghost.setdefault("prefix_nodes", {})
        if key not in cache:
            o = Obj(slf.cls, f"{slf.name}[:{j}]")
            o.fields["_inners"] = SList(j, sl.elem, f"{sl.tag}[:{j}]", family=sl.family)
            o.fields["_variable_names"] = SSet(spec.vars_of(I, o))
            cache[key] = o
        return cache[key]

    def on_entry(self, I, env, sl, st):
        slf, acc, m = self._parts(I, env)
        I.ghost["synthloop"] = {"d0": acc.fields["_synthetic_partials"]}
        self.check_at(I, env, sl, st, z3.IntVal(0))          # the invariant holds on entry

    def assume_at(self, I, env, sl, st, j):
        from . import synth
        slf, acc, m = self._parts(I, env)
        d0 = I.ghost["synthloop"]["d0"]
        acc.fields["_synthetic_partials"] = synth.post_state_dict(I.contracts, I, self.prefix(I, slf, sl, j), d0, m)

    def check_at(self, I, env, sl, st, j1):
        from . import synth
        slf, acc, m = self._parts(I, env)
        d0 = I.ghost["synthloop"]["d0"]
        pre = self.prefix(I, slf, sl, j1)
        fam = sl.family
        for k in I.ghost.get("ambient_names", []):
            absent0, old = synth.dict_state(I, d0, k)
            in_vars = sym.member(k, spec.vars_of(I, pre))
            for pt in list(I.ghost.get("points", {}).values()):
                # induction hypothesis for every child: a variable that does not occur has partial 0
                qm(I).foralls.append((fam.length, lambda t, pt=pt, k=k: z3.Implies(
                    z3.Not(sym.member(k, spec.vars_of(I, fam.child(I, t)))), spec.den(I, fam.child(I, t), pt).dV(k) == 0)))
            for ci, (cond, absent1, new) in enumerate(synth.final_views(I, acc.fields["_synthetic_partials"], k)):
                I.path.require(z3.Implies(cond, absent1 == z3.And(absent0, z3.Not(in_vars))),
                               "loop-invariant:symbolic-accumulate/entry-presence-preserved", qfacts=True)
                if new is None:
                    continue
                for pt in list(I.ghost.get("points", {}).values()):
                    I.path.require(z3.Implies(cond, synth.accumulate_clause(I, pt, k, absent0, old, absent1, new, pre, m)),
                                   "loop-invariant:symbolic-accumulate/denotation-preserved", qfacts=True)
                vs = sym.union(sym.union(synth.old_vars(I, absent0, old), spec.vars_of(I, m)), synth.vars_bound(I, pre))
                I.path.require(z3.Implies(z3.And(cond, z3.Not(absent1)), gmode.skolem_subset(I, spec.vars_of(I, new), vs, "accvars")),
                               "loop-invariant:symbolic-accumulate/variables-preserved", qfacts=True)


class MultiplySynthAccumulateLoop(SynthAccumulateLoop):
    """Multiply._compute_synthetic_partials: after j iterations the accumulator is in the state the
    contract prescribes for a virtual node whose derivative is the product rule cut off after j
    terms,  d/dn = sum_{i<j} dV_i(n) * prod_{u != i} V_u,  which mentions the variables of the first j
    children and is defined where every child is."""
    def prefix(self, I, slf, sl, j):
        key = ("ppr", z3.simplify(j).get_id() if z3.is_expr(j) else j)
        cache = I.ghost.setdefault("prefix_nodes", {})
        if key not in cache:
            fam = sl.family
            o = Obj(slf.cls, f"{slf.name}[product rule :{j}]")
            jt = j if z3.is_expr(j) else z3.IntVal(j)

            def custom_den(I2, pt):
                whole = spec.den(I2, slf, pt)
                dk = lambda t: spec.den(I2, fam.child(I2, t), pt)
                return spec.Den(whole.D, whole.V, lambda n: gmode.bigsum(
                    I2, lambda t: dk(t).dV(n) * gmode.bigprod_without(I2, lambda u: dk(u).V, t, fam.length), jt))
            o.ghost["custom_den"] = custom_den
            o.ghost["custom_vars"] = lambda I2: gmode.bigunion(I2, jt, lambda t: spec.vars_of(I2, fam.child(I2, t)), f"Vars({o.name})")
            # every term's multiplier mentions all the other children
            o.ghost["vars_bound"] = lambda I2: spec.vars_of(I2, slf)
            cache[key] = o
        return cache[key]


def partition_ghost(I, k):
    """Ghost functions of `partition by P` over a list of length k: cnt(j) = number of hits among
    the first j entries, sigma(u) / tau(u) = index of the u-th hit / miss.  Their defining facts
    (true of these mathematical functions, Lean: List.countP / filter) are instantiated at the
    index terms in play."""
    g = I.ghost.setdefault("partition_ghost", None)
    if g is not None:
        return g
    P = z3.Function("P!part", z3.IntSort(), z3.BoolSort())
    cnt = z3.Function("cnt!part", z3.IntSort(), z3.IntSort())
    sigma = z3.Function("sigma!part", z3.IntSort(), z3.IntSort())
    tau = z3.Function("tau!part", z3.IntSort(), z3.IntSort())
    q = qm(I)
    q.links.append(cnt(z3.IntVal(0)) == 0)
    q.foralls.append((None, lambda j: z3.And(cnt(j + 1) == cnt(j) + z3.If(P(j), 1, 0), cnt(j) >= 0, cnt(j) <= j)))
    q.foralls.append((k, lambda j: z3.If(P(j), sigma(cnt(j)) == j, tau(j - cnt(j)) == j)))
    g = I.ghost["partition_ghost"] = {"P": P, "cnt": cnt, "sigma": sigma, "tau": tau}
    return g


class PartitionLoop:
    """utilities.partition_by_predicate: after j iterations  hits = [entries[sigma(u)] for u < cnt(j)]
    and  misses = [entries[tau(u)] for u < j - cnt(j)]."""
    def element(self, I, sl, j):
        return sl.elem(j)

    def _names(self, st):
        from .interp import Unsupported
        ifs = [n for n in st.body if isinstance(n, ast.If)]
        if len(st.body) != 1 or len(ifs) != 1:
            raise Unsupported("G-mode: partition loop body is not a single if/else")

        def appended(block):
            if len(block) == 1 and isinstance(block[0], ast.Expr) and isinstance(block[0].value, ast.Call) \
                    and isinstance(block[0].value.func, ast.Attribute) and block[0].value.func.attr == "append" \
                    and isinstance(block[0].value.func.value, ast.Name):
                return block[0].value.func.value.id
            raise Unsupported("G-mode: partition loop branch is not a single append")
        return appended(ifs[0].body), appended(ifs[0].orelse)

    def _lists(self, I, sl, j):
        g = partition_ghost(I, sl.length)
        hits = SList(g["cnt"](j), lambda u: sl.elem(g["sigma"](u)), f"hits@{j}")
        misses = SList(z3.simplify(j - g["cnt"](j)), lambda u: sl.elem(g["tau"](u)), f"misses@{j}")
        return hits, misses

    def on_entry(self, I, env, sl, st):
        self.check_at(I, env, sl, st, z3.IntVal(0))

    def assume_at(self, I, env, sl, st, j):
        h, m = self._names(st)
        env.vars[h], env.vars[m] = self._lists(I, sl, j)

    def check_at(self, I, env, sl, st, j1):
        h, m = self._names(st)
        want = dict(zip((h, m), self._lists(I, sl, j1)))
        for name in (h, m):
            got = env.vars.get(name)
            if isinstance(got, list) and not got:
                got = SList(z3.IntVal(0), lambda u: None, "[]")
            if not isinstance(got, SList):
                from .interp import Unsupported
                raise Unsupported("G-mode: partition loop accumulators are not lists")
            I.path.require(got.length == want[name].length, f"loop-invariant:partition/{'hits' if name == h else 'misses'}-length", qfacts=True)
            u = z3.Int(I.path.fresh_name("u!part"))
            qm(I).add_index(u, want[name].length)
            a, b = got.elem(u), want[name].elem(u)
            same = (a.idx == b.idx) if isinstance(a, gmode.IndexedItem) and isinstance(b, gmode.IndexedItem) else z3.BoolVal(a is b)
            I.path.require(z3.Implies(z3.And(u >= 0, u < want[name].length), same),
                           f"loop-invariant:partition/{'hits' if name == h else 'misses'}-elements", qfacts=True)


class StepSearchLoop:
    """NAryExpression._take_reduction_step, the loop that looks for the first operand that is not
    fully reduced: every operand before position j carries the flag."""
    def element(self, I, sl, j):
        return sl.elem(j)

    def _flag(self, I, sl, t):
        return sl.family.frF(t)

    def on_entry(self, I, env, sl, st):
        pass                                    # nothing is claimed about zero operands

    def assume_at(self, I, env, sl, st, j):
        qm(I).foralls.append((j, lambda t: self._flag(I, sl, t)))
        I.ghost.setdefault("all_flagged_before", []).append(j)

    def check_at(self, I, env, sl, st, j1):
        s = z3.Int(I.path.fresh_name("s!flagged"))
        qm(I).add_index(s, sl.length)
        I.path.require(z3.Implies(z3.And(s >= 0, s < j1), self._flag(I, sl, s)), "loop-invariant:step/operands-so-far-flagged", qfacts=True)


class FirstMatchLoop:
    """utilities.first_match_by_predicate: no entry before position j satisfies the predicate."""
    def element(self, I, sl, j):
        return sl.elem(j)

    def on_entry(self, I, env, sl, st):
        pass

    def assume_at(self, I, env, sl, st, j):
        P = I.ghost["first_match_P"]
        qm(I).foralls.append((j, lambda t: z3.Not(P(t))))

    def check_at(self, I, env, sl, st, j1):
        P = I.ghost["first_match_P"]
        s = z3.Int(I.path.fresh_name("s!nomatch"))
        qm(I).add_index(s, sl.length)
        I.path.require(z3.Implies(z3.And(s >= 0, s < j1), z3.Not(P(s))), "loop-invariant:first-match/no-match-so-far", qfacts=True)


REGISTRY = {
    ("math_functions.multiply", 0): MultiplyLoop(),
    ("Add._compute_numeric_partials", 0): AccumulateLoop(),
    ("Add._compute_synthetic_partials", 0): SynthAccumulateLoop(),
    ("Multiply._compute_numeric_partials", 0): MultiplyAccumulateLoop(),
    ("Multiply._compute_synthetic_partials", 0): MultiplySynthAccumulateLoop(),
    ("utilities.partition_by_predicate", 0): PartitionLoop(),
    ("NAryExpression._take_reduction_step", 0): StepSearchLoop(),
    ("utilities.first_match_by_predicate", 0): FirstMatchLoop(),
}
