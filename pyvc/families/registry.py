from . import evaluate, numeric, structure

MODULES = [evaluate, numeric, structure]


def all_specs(prog, tier):
    out = []
    for m in MODULES:
        out += m.specs(prog, tier)
    return out
