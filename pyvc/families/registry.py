from . import evaluate, numeric, structure, reduce, symbolic, wrappers, frame, ordering, history, gfam

MODULES = [evaluate, numeric, structure, reduce, symbolic, wrappers, frame, ordering, history, gfam]


def all_specs(prog, tier):
    out = []
    for m in MODULES:
        out += m.specs(prog, tier)
    return out
