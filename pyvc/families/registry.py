from . import evaluate, numeric, structure, reduce, symbolic

MODULES = [evaluate, numeric, structure, reduce, symbolic]


def all_specs(prog, tier):
    out = []
    for m in MODULES:
        out += m.specs(prog, tier)
    return out
