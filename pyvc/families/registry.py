from . import evaluate

MODULES = [evaluate]


def all_specs(prog, tier):
    out = []
    for m in MODULES:
        out += m.specs(prog, tier)
    return out
