import re
import os
from . import evaluate, numeric, structure, reduce, symbolic, wrappers, frame, ordering, history, gfam
from .common import method_threshold

MODULES = [evaluate, numeric, structure, reduce, symbolic, wrappers, frame, ordering, history, gfam]

_KFAM = re.compile(r"(Add|Multiply)\[k=(\d+)\]\.(\w+)")


def all_specs(prog, tier):
    out = []
    for m in MODULES:
        out += m.specs(prog, tier)
    # arities beyond the tier's K are only kept for the methods whose code branches on an arity
    # threshold that large (otherwise K = 3 / 4 already covers every code path shape)
    base_k = int(os.environ["PYVC_K"]) if os.environ.get("PYVC_K") else (3 if tier == "quick" else 4)
    kept = []
    for s in out:
        m = _KFAM.search(s.name)
        if m and int(m.group(2)) > base_k:
            cls = prog.classes[m.group(1)]
            if int(m.group(2)) > min(method_threshold(prog, cls, m.group(3)) + 1, 7):
                continue
        kept.append(s)
    return kept
