from . import evaluate, numeric

MODULES = [evaluate, numeric]


def all_specs(prog, tier):
    out = []
    for m in MODULES:
        out += m.specs(prog, tier)
    return out
