from . import evaluate, numeric, structure, reduce

MODULES = [evaluate, numeric, structure, reduce]


def all_specs(prog, tier):
    out = []
    for m in MODULES:
        out += m.specs(prog, tier)
    return out
