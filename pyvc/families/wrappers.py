"""C12 / C13 / C14 for Point and the four derivative wrapper classes."""
from __future__ import annotations
import z3
from .. import harness as H, spec, sym, structural as st, hashing
from ..values import *
from ..engine import FamilySpec
from ..builtin_contracts import SDict, NumBase
from .common import *
from .numeric import ambient_name, expr_child, variable_arg
from .structure import tokenize, parse_call, atom_denotes, tagged, structural_value


def point_value(cz, I, p):
    if isinstance(p, Obj) and getattr(p.cls, "name", None) == "Point":
        return {"point": cz.point_of(p)}
    return structural_value(cz, I, p)


def wrapper_value(cz, I, kind, parts):
    if parts is None:
        return None
    v = {"wrapper": kind, "e": structural_value(cz, I, parts["e"])}
    if "name" in parts:
        v["name"] = cz.name_str(parts["name"])
    if "pt" in parts:
        v["pt"] = cz.point_of(parts["pt"])
    return v

STRUCT_CONTRACTS = ("__eq__", "__hash__", "__str__", "__repr__")


def point_eq_spec(I, p, q):
    """PointEq: same coordinate names with equal values, in any order."""
    return I.bi.dict_equals(p.fields["_coordinates"], q.fields["_coordinates"])


def extensionality(I, p, q):
    """Trusted lemma (function extensionality): equal points have equal canonical item maps."""
    pp, pv = hashing.items_arrays(I, p.fields["_coordinates"])
    qp, qv = hashing.items_arrays(I, q.fields["_coordinates"])
    return z3.BoolVal(True)     # not needed under the canonical-array convention (dict_equals)


# ---------------------------------------------------------------------------- Point

def fam_point_coordinate(as_object):
    nm = f"Point.coordinate[{'Variable' if as_object else 'str'}]"

    def run(prog, tier):
        def setup(I):
            pt = H.make_point(I)
            x = ambient_name(I)
            I.ghost.update({"pt": pt, "x": x})

            def thunk():
                var = variable_arg(I, x, as_object)
                return I.call(I.getattr_(pt, "coordinate"), [var])
            return thunk

        def post(I, res, emit):
            pt, x = I.ghost["pt"], I.ghost["x"]
            has, val = spec.point_has(I, pt, x), spec.point_val(I, pt, x)
            if res.outcome[0] == "ret":
                r = res.outcome[1]
                emit("returns=>coordinate-present", ["C14"], has)
                emit("returns-the-coordinate", ["C14", "C01"], real_term(r) == val if is_num(r) else z3.BoolVal(False))
            elif H.exc_kind(res.outcome[1]) == "CoordinateMissing":
                emit("CoordinateMissing=>absent", ["C14"], z3.Not(has))
            else:
                emit("no-other-exception", ["C17", "C14"], z3.BoolVal(False), info=H.exc_kind(res.outcome[1]))
        return H.run_family(prog, nm, setup, post)
    return FamilySpec(nm, ["C14", "C01", "C17"], run, functions=["Point.coordinate", "variable.get_variable_name"])


def fam_number_line():
    nm = "point.point_on_number_line"

    def run(prog, tier):
        def setup(I):
            x = ambient_name(I)
            v = SNum(z3.Real("value"), z3.Bool("value_is_int"))
            I.ghost.update({"x": x, "v": v})
            I.ghost["replay"] = {"kind": "number_line", "root": None, "pt": None, "x": x,
                                 "extra": {"name": lambda cz: cz.name_str(x)}}
            I.path.assume(z3.And(I.bi.nonempty(x), I.bi.allword(x)))      # any name accepted by Variable
            fd = prog.func("point.point_on_number_line")

            def thunk():
                p = I.call_funcdef(fd, [SName(x), v], {})
                return I.call(I.getattr_(p, "coordinate"), [SName(x)])
            return thunk

        def post(I, res, emit):
            if res.outcome[0] == "ret" and is_num(res.outcome[1]):
                emit("coordinate-of-the-name-is-the-value", ["C14"], real_term(res.outcome[1]) == real_term(I.ghost["v"]))
            else:
                emit("accepted-name-usable-as-coordinate", ["C14"], z3.BoolVal(False), info=repr(res.outcome))
        return H.run_family(prog, nm, setup, post)
    return FamilySpec(nm, ["C14"], run, functions=["point.point_on_number_line", "Point.__init__", "Point.coordinate"])


def fam_point_eq():
    nm = "Point.__eq__"

    def run(prog, tier):
        fam_all = None
        fd = prog.classes["Point"].methods["__eq__"]
        spines = [f"Point[{a},{b}]" for a in range(3) for b in range(3)]
        for variant in ["Point", "Foreign", "Int", "None", "Str", "Expr"] + spines:
            def setup(I, variant=variant):
                if variant.startswith("Point["):
                    # points written out with a and b coordinates (symbolic names and values)
                    a, b = (int(t) for t in variant[6:-1].split(","))
                    p, q = concrete_point(I, a, "p"), concrete_point(I, b, "q")
                    I.ghost.update({"p": p, "q": q})
                    I.ghost["replay"] = {"kind": "point_eq_hash", "root": None, "pt": None, "x": None,
                                         "extra": {"b": lambda cz: point_value(cz, I, q), "a": lambda cz: point_value(cz, I, p)}}
                    return lambda: I.call_funcdef(fd, [p, q], {})
                p = H.make_point(I, "p")
                q = H.make_point(I, "q") if variant == "Point" else tagged(I, variant, "other")
                I.ghost.update({"p": p, "q": q})
                I.ghost["replay"] = {"kind": "point_eq_hash", "root": None, "pt": None, "x": None,
                                     "extra": {"b": lambda cz: point_value(cz, I, q), "a": lambda cz: point_value(cz, I, p)}}
                return lambda: I.call_funcdef(fd, [p, q], {})

            def post(I, res, emit, variant=variant):
                p, q = I.ghost["p"], I.ghost["q"]
                if res.outcome[0] == "raise":
                    emit("never-raises", ["C12"], z3.BoolVal(False), info=f"{H.exc_kind(res.outcome[1])} at {res.outcome[2]}")
                    return
                r = res.outcome[1]
                rb = z3.BoolVal(r) if isinstance(r, bool) else r
                want = point_eq_spec(I, p, q) if variant.startswith("Point") else z3.BoolVal(False)
                emit("equals=same-coordinates", ["C12"], rb == want)
            fam = H.run_family(prog, f"{nm}[{variant}]", setup, post,
                               bounded=("coordinates<=2 (written-out points)" if variant.startswith("Point[") else None))
            if fam_all is None:
                fam_all, fam_all.name = fam, nm
            else:
                fam_all.obls += fam.obls
                fam_all.paths += fam.paths
                fam_all.error = fam_all.error or fam.error
        return fam_all
    return FamilySpec(nm, ["C12"], run, functions=["Point.__eq__"])


def fam_point_hash():
    nm = "Point.__hash__"

    def run(prog, tier):
        fd = prog.classes["Point"].methods["__hash__"]

        def setup(I):
            p, q = H.make_point(I, "p"), H.make_point(I, "q")
            I.ghost.update({"p": p, "q": q})
            I.ghost["replay"] = {"kind": "point_eq_hash", "root": None, "pt": None, "x": None,
                                 "extra": {"b": lambda cz: point_value(cz, I, q), "a": lambda cz: point_value(cz, I, p)}}
            return lambda: (I.call_funcdef(fd, [p], {}), I.call_funcdef(fd, [q], {}))

        def post(I, res, emit):
            p, q = I.ghost["p"], I.ghost["q"]
            if res.outcome[0] == "raise":
                emit("never-raises", ["C12"], z3.BoolVal(False), info=H.exc_kind(res.outcome[1]))
                return
            h1, h2 = res.outcome[1]
            emit("equal=>equal-hashes", ["C12"], z3.Implies(point_eq_spec(I, p, q), num_term(h1) == num_term(h2)),
                 extra=[extensionality(I, p, q)])
        return H.run_family(prog, nm, setup, post)
    return FamilySpec(nm, ["C12", "C18"], run, functions=["Point.__hash__"])


def concrete_point(I, k, name="p"):
    pt = Obj(I.prog.classes["Point"], name)
    d = SDict()
    names = [z3.Const(f"{name}.name{i}", sym.Name) for i in range(k)]
    for i, n in enumerate(names):
        d.entries.append((SName(n), SNum(z3.Real(f"{name}.value{i}"), z3.Bool(f"{name}.value{i}_is_int"))))
    if k > 1:
        I.path.assume(z3.Distinct(*names))
    pt.fields["_coordinates"] = d
    pt.ghost["ptname"] = name
    return pt


def fam_point_repr(k, method):
    nm = f"Point[k={k}].{method}"

    def run(prog, tier):
        fd = prog.classes["Point"].methods[method]

        def setup(I):
            pt = concrete_point(I, k)
            I.ghost["pt"] = pt
            I.ghost["replay"] = {"kind": "value_repr", "root": None, "pt": None, "x": None,
                                 "extra": {"a": lambda cz: point_value(cz, I, pt)}}
            return lambda: I.call_funcdef(fd, [pt], {})

        def post(I, res, emit):
            pt = I.ghost["pt"]
            if res.outcome[0] == "raise":
                emit("never-raises", ["C13"], z3.BoolVal(False), info=H.exc_kind(res.outcome[1]))
                return
            r = res.outcome[1]
            parsed = parse_call(tokenize(str_parts(r))) if isinstance(r, (str, SStr)) else None
            if parsed is None:
                emit("prints-a-constructor-call", ["C13"], z3.BoolVal(False), info=repr(r))
                return
            name, args, kwargs = parsed
            emit("prints-own-constructor-name", ["C13"], z3.BoolVal(name == "Point"))
            ents = pt.fields["_coordinates"].entries
            ok = not args and len(kwargs) == len(ents)
            conds = []
            if ok:
                for (key, val) in ents:
                    hit = None
                    for kw, a in kwargs.items():
                        if isinstance(kw, tuple) and kw[0] == "name" and kw[1].get_id() == key.term.get_id():
                            hit = a
                    if hit is None:
                        ok = False
                        break
                    conds.append(atom_denotes(I, hit, val))
            goal = z3.BoolVal(False) if not ok else sym.conj([z3.BoolVal(c) if isinstance(c, bool) else c for c in conds])
            emit("printed-coordinates-rebuild-the-point", ["C13"], goal, info=repr(r))
        return H.run_family(prog, nm, setup, post, bounded=f"coordinates={k}")
    return FamilySpec(nm, ["C13"], run, functions=[f"Point.{method}", "Point._to_string"])


# ---------------------------------------------------------------------------- derivative wrappers

WRAPPERS = ["Partial", "Derivative", "Differential", "LocatedDifferential"]


def build_wrapper(I, kind, tag):
    """(object, parts) built by the real constructor from arbitrary expression / name / point
    (argument combinations the constructor rejects do not yield an object)."""
    from ..interp import Raise, PathAbort
    try:
        return _build_wrapper(I, kind, tag)
    except Raise:
        raise PathAbort()


def _build_wrapper(I, kind, tag):
    C = I.prog.classes
    e = I.contracts.make_child(I, f"{tag}.e")
    parts = {"e": e}
    if kind == "Partial":
        n = z3.Const(f"{tag}.name", sym.Name)
        parts["name"] = n
        o = I.instantiate(C["Partial"], [e, SName(n)], {})
    elif kind == "Derivative":
        o = I.instantiate(C["Derivative"], [e], {})
    elif kind == "Differential":
        o = I.instantiate(C["Differential"], [e], {})
    else:
        pt = H.make_point(I, f"{tag}.pt")
        parts["pt"] = pt
        o = I.instantiate(C["LocatedDifferential"], [e, pt], {"_private": pre_private(I, tag)})
    return o, parts


def pre_private(I, tag):
    # LocatedDifferential computes its partials at construction, or is handed them by
    # Differential.at (the real _private hook).  Equality, hashing and printing are *exact*
    # notions, and the two routes agree only in real arithmetic, not float for float: for
    # these properties the stored partials are therefore arbitrary numbers per object.
    from ..builtin_contracts import NumBase
    d = SDict()
    present = z3.Const(f"{tag}.partials.present", sym.NameSet)
    vals = z3.Const(f"{tag}.partials.values", z3.ArraySort(sym.Name, z3.RealSort()))
    d.entries.append(("numeric_partials", SDict(base=NumBase(present, vals))))
    return d


def wrapper_eq_spec(I, kind, a, b):
    c = [st.T(I, a["e"]) == st.T(I, b["e"])]
    if kind == "Partial":
        c.append(a["name"] == b["name"])
    if kind == "LocatedDifferential":
        c.append(point_eq_spec(I, a["pt"], b["pt"]))
    return z3.And(*c)


def fam_wrapper_eq(kind):
    nm = f"{kind}.__eq__"

    def run(prog, tier):
        fam_all = None
        fd = prog.classes[kind].methods["__eq__"]
        others = ["same", "other-wrapper", "Foreign", "None", "Int", "Expr"]
        for variant in others:
            def setup(I, variant=variant):
                a, pa = build_wrapper(I, kind, "a")
                if variant == "same":
                    b, pb = build_wrapper(I, kind, "b")
                elif variant == "other-wrapper":
                    ok = [w for w in WRAPPERS if w != kind][0]
                    b, pb = build_wrapper(I, ok, "b")
                else:
                    b, pb = tagged(I, variant, "b"), None
                I.ghost.update({"a": a, "pa": pa, "b": b, "pb": pb})
                bk = kind if variant == "same" else ([w for w in WRAPPERS if w != kind][0] if variant == "other-wrapper" else None)
                I.ghost["replay"] = {"kind": "wrapper_eq_hash", "root": None, "pt": None, "x": None,
                                     "extra": {"a": lambda cz: wrapper_value(cz, I, kind, pa),
                                               "b": lambda cz: (wrapper_value(cz, I, bk, pb) if pb is not None else structural_value(cz, I, b))}}
                return lambda: I.call_funcdef(fd, [a, b], {})

            def post(I, res, emit, variant=variant):
                g = I.ghost
                if res.outcome[0] == "raise":
                    emit("never-raises", ["C12"], z3.BoolVal(False), info=f"{H.exc_kind(res.outcome[1])} at {res.outcome[2]}")
                    return
                r = res.outcome[1]
                rb = z3.BoolVal(r) if isinstance(r, bool) else r
                want = wrapper_eq_spec(I, kind, g["pa"], g["pb"]) if variant == "same" else z3.BoolVal(False)
                emit("equals=equal-expression(-variable,-point)", ["C12"], rb == want)
            fam = H.run_family(prog, f"{nm}[{variant}]", setup, post, force_contract=STRUCT_CONTRACTS)
            if fam_all is None:
                fam_all, fam_all.name = fam, nm
            else:
                fam_all.obls += fam.obls
                fam_all.paths += fam.paths
                fam_all.error = fam_all.error or fam.error
        return fam_all
    return FamilySpec(nm, ["C12"], run, functions=[f"{kind}.__eq__", f"{kind}.__init__"])


def fam_wrapper_hash(kind):
    nm = f"{kind}.__hash__"

    def run(prog, tier):
        fd = prog.classes[kind].methods["__hash__"]

        def setup(I):
            a, pa = build_wrapper(I, kind, "a")
            b, pb = build_wrapper(I, kind, "b")
            I.ghost.update({"pa": pa, "pb": pb})
            I.ghost["replay"] = {"kind": "wrapper_eq_hash", "root": None, "pt": None, "x": None,
                                 "extra": {"a": lambda cz: wrapper_value(cz, I, kind, pa), "b": lambda cz: wrapper_value(cz, I, kind, pb)}}
            return lambda: (I.call_funcdef(fd, [a], {}), I.call_funcdef(fd, [b], {}))

        def post(I, res, emit):
            g = I.ghost
            if res.outcome[0] == "raise":
                emit("never-raises", ["C12"], z3.BoolVal(False), info=H.exc_kind(res.outcome[1]))
                return
            h1, h2 = res.outcome[1]
            extra = [extensionality(I, g["pa"]["pt"], g["pb"]["pt"])] if kind == "LocatedDifferential" else []
            emit("equal=>equal-hashes", ["C12"],
                 z3.Implies(wrapper_eq_spec(I, kind, g["pa"], g["pb"]), num_term(h1) == num_term(h2)), extra=extra)
        return H.run_family(prog, nm, setup, post, force_contract=STRUCT_CONTRACTS)
    return FamilySpec(nm, ["C12"], run, functions=[f"{kind}.__hash__"])


def fam_wrapper_repr(kind, method):
    nm = f"{kind}.{method}"

    def run(prog, tier):
        fd = prog.classes[kind].methods[method]

        def setup(I):
            a, pa = build_wrapper(I, kind, "a")
            I.ghost.update({"a": a, "pa": pa})
            I.ghost["replay"] = {"kind": "value_repr", "root": None, "pt": None, "x": None,
                                 "extra": {"a": lambda cz: wrapper_value(cz, I, kind, pa)}}
            return lambda: I.call_funcdef(fd, [a], {})

        def post(I, res, emit):
            g = I.ghost
            pa = g["pa"]
            if res.outcome[0] == "raise":
                emit("never-raises", ["C13"], z3.BoolVal(False), info=H.exc_kind(res.outcome[1]))
                return
            r = res.outcome[1]
            parsed = parse_call(tokenize(str_parts(r))) if isinstance(r, (str, SStr)) else None
            if parsed is None:
                emit("prints-a-constructor-call", ["C13"], z3.BoolVal(False), info=repr(r))
                return
            name, args, kwargs = parsed
            emit("prints-own-constructor-name", ["C13"], z3.BoolVal(name == kind))
            want = [pa["e"]]
            if kind == "Partial":
                want.append(SName(pa["name"]))
            if kind == "LocatedDifferential":
                want.append(pa["pt"])
            ok = len(args) == len(want) and not kwargs
            conds = [atom_denotes(I, a, w) for a, w in zip(args, want)] if ok else []
            goal = z3.BoolVal(False) if not ok else sym.conj([z3.BoolVal(c) if isinstance(c, bool) else c for c in conds])
            emit("printed-arguments-rebuild-an-equal-object", ["C13"], goal, info=repr(r))
        return H.run_family(prog, nm, setup, post, force_contract=STRUCT_CONTRACTS)
    return FamilySpec(nm, ["C13"], run, functions=[f"{kind}.{method}", f"{kind}._to_string"])


def specs(prog, tier):
    out = [fam_point_coordinate(False), fam_point_coordinate(True), fam_number_line(), fam_point_eq(), fam_point_hash()]
    for k in arities(tier):
        for m in ("__repr__", "__str__"):
            out.append(fam_point_repr(k, m))
    for kind in WRAPPERS:
        out.append(fam_wrapper_eq(kind))
        out.append(fam_wrapper_hash(kind))
        for m in ("__repr__", "__str__"):
            out.append(fam_wrapper_repr(kind, m))
    return out
