"""C05 (+C06, C07 early routes, C09 path switch): symbolic differentiation, forward and
reverse, and the symbolic routes of the wrapper classes."""
from __future__ import annotations
import z3
from .. import harness as H, spec, sym, synth
from ..values import *
from ..interp import LazyOpt
from ..engine import FamilySpec
from ..builtin_contracts import SDict
from .common import *
from .numeric import ambient_name, expr_child, variable_arg, route_post

NORMALIZE_CONTRACT = ("_normalize",)


def denotes_partial(I, emit, e, r, pt, x, props=("C05",), clause="denotes-true-partial", extra=()):
    de = spec.den(I, e, pt)
    dr = spec.den(I, r, pt)
    emit(clause, list(props), z3.Implies(de.D, z3.And(dr.D, dr.V == de.dV(x))), extra=list(extra))
    emit("mentions-no-new-variable", list(props), sym.subset(spec.vars_of(I, r), spec.vars_of(I, e)))


def fam_synthetic_partial(cls, arity, label, bounded):
    def run(prog, tier):
        fd = cls.lookup("_synthetic_partial")

        def setup(I):
            pt = H.make_point(I)
            x = ambient_name(I)
            slf = H.make_self(I, cls, arity)
            I.ghost.update({"self": slf, "pt": pt, "x": x})
            I.ghost["replay"] = {"kind": "numeric_routes", "root": slf, "pt": pt, "x": x, "extra": {"early": True}}
            return lambda: I.call_funcdef(fd, [slf, SName(x)], {})

        def post(I, res, emit):
            g = I.ghost
            slf, pt, x = g["self"], g["pt"], g["x"]
            if res.outcome[0] == "raise":
                emit("no-exception", ["C05", "C17"], z3.BoolVal(False), info=f"{H.exc_kind(res.outcome[1])} at {res.outcome[2]}")
                return
            r = res.outcome[1]
            if not isinstance(r, Obj):
                emit("returns-expression", ["C05", "C17"], z3.BoolVal(False), info=repr(r))
                return
            denotes_partial(I, emit, slf, r, pt, x, extra=H.child_facts(I, pt, [x]))
        return H.run_family(prog, f"{label}._synthetic_partial", setup, post, bounded=bounded)
    return FamilySpec(f"{label}._synthetic_partial", ["C05", "C17", "C06", "C07"], run,
                      functions=[f"{cls.name}._synthetic_partial"])


def make_synth_accumulator(I, names):
    acc = I.instantiate(I.prog.classes["SyntheticPartialsAccumulator"], [], {})
    base = synth.initial_state(I, names)
    acc.fields["_synthetic_partials"] = SDict(base=base)
    I.heap_log.append(("store", acc, "_synthetic_partials", "<harness>", True, id(acc.fields["_synthetic_partials"])))
    return acc, base


def fam_compute_synthetic_partials(cls, arity, label, bounded):
    def run(prog, tier):
        fd = cls.lookup("_compute_synthetic_partials")

        def setup(I):
            pt = H.make_point(I)
            k = ambient_name(I, "k")
            slf = H.make_self(I, cls, arity)
            m = I.contracts.make_child(I, "m")
            acc, base = make_synth_accumulator(I, [k])
            I.ghost.update({"self": slf, "pt": pt, "k": k, "acc": acc, "m": m, "state0": (k,) + tuple(base.state_for(I, k))})
            I.ghost["replay"] = {"kind": "numeric_routes", "root": slf, "pt": pt, "x": k, "extra": {"early": True}}
            return lambda: I.call_funcdef(fd, [slf, acc, m], {})

        def post(I, res, emit):
            g = I.ghost
            slf, pt, k, acc, m = g["self"], g["pt"], g["k"], g["acc"], g["m"]
            if res.outcome[0] == "raise":
                emit("no-exception", ["C05", "C17"], z3.BoolVal(False), info=f"{H.exc_kind(res.outcome[1])} at {res.outcome[2]}")
                return
            (_k, absent0, old) = g["state0"]
            in_vars = sym.member(k, spec.vars_of(I, slf))
            hyp = H.child_facts(I, pt, [k])
            for ci, (cond, absent1, new) in enumerate(synth.final_views(I, acc.fields["_synthetic_partials"], k)):
                emit(f"entry-present-iff-was-present-or-variable-occurs#{ci}", ["C05"],
                     z3.Implies(cond, absent1 == z3.And(absent0, z3.Not(in_vars))))
                if new is None:
                    continue
                emit(f"accumulates-symbolically#{ci}", ["C05"],
                     z3.Implies(cond, synth.accumulate_clause(I, pt, k, absent0, old, absent1, new, slf, m)), extra=hyp)
                emit(f"mentions-no-new-variable#{ci}", ["C05"],
                     z3.Implies(z3.And(cond, z3.Not(absent1)),
                                sym.subset(spec.vars_of(I, new),
                                           sym.union(sym.union(synth.old_vars(I, absent0, old), spec.vars_of(I, m)),
                                                     spec.vars_of(I, slf)))))
        return H.run_family(prog, f"{label}._compute_synthetic_partials", setup, post, bounded=bounded)
    return FamilySpec(f"{label}._compute_synthetic_partials", ["C05", "C17", "C06", "C07"], run,
                      functions=[f"{cls.name}._compute_synthetic_partials", "SyntheticPartialsAccumulator.add_to"])


# ---------------------------------------------------------------------------- wrapper routes (symbolic)

def fam_as_expression(kind):
    """as_expression() of Partial / Derivative / Differential component, early and late."""
    nm = f"{kind}.as_expression"

    def run(prog, tier):
        def setup(I):
            pt = H.make_point(I)
            x = ambient_name(I)
            e = expr_child(I)
            I.ghost.update({"e": e, "pt": pt, "x": x})
            I.ghost["replay"] = {"kind": "numeric_routes", "root": e, "pt": pt, "x": x, "extra": {"early": True}}

            def thunk():
                if kind.startswith("Partial"):
                    early = kind.endswith("early")
                    p = I.instantiate(prog.classes["Partial"], [e, SName(x)], {"compute_early": early})
                    return I.call(I.getattr_(p, "as_expression"), [])
                if kind.startswith("Derivative"):
                    early = kind.endswith("early")
                    dv = I.instantiate(prog.classes["Derivative"], [e], {"compute_early": early})
                    I.ghost["x"] = I.bi.key_term(dv.fields["_variable_name"])
                    I.ghost["ambient_names"].append(I.ghost["x"])
                    I.ghost["derivative_built"] = True
                    return I.call(I.getattr_(dv, "as_expression"), [])
                early = kind.endswith("early")
                df = I.instantiate(prog.classes["Differential"], [e], {"compute_early": early})
                p = I.call(I.getattr_(df, "component"), [SName(x)])
                return I.call(I.getattr_(p, "as_expression"), [])
            return thunk

        def post(I, res, emit):
            g = I.ghost
            e, pt, x = g["e"], g["pt"], g["x"]
            if res.outcome[0] == "raise":
                if kind.startswith("Derivative") and not g.get("derivative_built"):
                    emit("Derivative-rejects=>several-variables", ["C14"], sym.card(spec.vars_of(I, e)) >= 2)
                    return
                emit("no-exception", ["C05", "C17"], z3.BoolVal(False), info=f"{H.exc_kind(res.outcome[1])} at {res.outcome[2]}")
                return
            r = res.outcome[1]
            if not isinstance(r, Obj):
                emit("returns-expression", ["C05", "C17"], z3.BoolVal(False), info=repr(r))
                return
            hyp = spec.absent_variable_facts(I, e, pt, [x])
            denotes_partial(I, emit, e, r, pt, x, props=("C05", "C06"), extra=hyp)
        return H.run_family(prog, nm, setup, post, force_contract=NORMALIZE_CONTRACT)
    return FamilySpec(nm, ["C05", "C06", "C14", "C17"], run,
                      functions=["Partial.as_expression", "partial._retrieve_synthetic_partial", "Derivative.as_expression",
                                 "Differential.component", "differential._initial_synthetic_partials",
                                 "Expression._synthetic_partials", "SyntheticPartialsAccumulator.synthetic_partials_for"])


def fam_symbolic_route(route):
    """Numeric answers obtained through the symbolic path (early objects, or late objects
    after as_expression() switched them)."""
    nm = f"route[{route}]"

    def run(prog, tier):
        def setup(I):
            pt = H.make_point(I)
            x = ambient_name(I)
            e = expr_child(I)
            I.ghost.update({"e": e, "pt": pt, "x": x})
            I.ghost["replay"] = {"kind": "numeric_routes", "root": e, "pt": pt, "x": x, "extra": {"early": True}}
            C = prog.classes

            def thunk():
                if route == "Partial(early).at":
                    p = I.instantiate(C["Partial"], [e, SName(x)], {"compute_early": True})
                    return I.call(I.getattr_(p, "at"), [pt])
                if route == "Partial(late).as_expression;at":
                    p = I.instantiate(C["Partial"], [e, SName(x)], {})
                    I.call(I.getattr_(p, "as_expression"), [])
                    return I.call(I.getattr_(p, "at"), [pt])
                if route == "Derivative(early).at":
                    dv = I.instantiate(C["Derivative"], [e], {"compute_early": True})
                    I.ghost["x"] = I.bi.key_term(dv.fields["_variable_name"])
                    I.ghost["ambient_names"].append(I.ghost["x"])
                    I.ghost["built"] = True
                    return I.call(I.getattr_(dv, "at"), [pt])
                if route == "Differential(early).component_at":
                    df = I.instantiate(C["Differential"], [e], {"compute_early": True})
                    return I.call(I.getattr_(df, "component_at"), [SName(x), pt])
                if route == "Differential(early).component.at":
                    df = I.instantiate(C["Differential"], [e], {"compute_early": True})
                    p = I.call(I.getattr_(df, "component"), [SName(x)])
                    return I.call(I.getattr_(p, "at"), [pt])
                if route == "Differential(early).at.component":
                    df = I.instantiate(C["Differential"], [e], {"compute_early": True})
                    ldf = I.call(I.getattr_(df, "at"), [pt])
                    return I.call(I.getattr_(ldf, "component"), [SName(x)])
                raise KeyError(route)
            return thunk

        def post(I, res, emit):
            g = I.ghost
            if route.startswith("Derivative") and not g.get("built"):
                emit("Derivative-rejects=>several-variables", ["C14"], sym.card(spec.vars_of(I, g["e"])) >= 2)
                return
            route_post(I, res, emit, g["e"], g["pt"], g["x"], props=("C05", "C06"))
        return H.run_family(prog, nm, setup, post, force_contract=NORMALIZE_CONTRACT)
    return FamilySpec(nm, ["C05", "C06", "C07", "C09", "C14", "C17"], run,
                      functions=["Partial.at", "Partial.as_expression", "Derivative.at", "Differential.at",
                                 "Differential.component", "Differential.component_at", "LocatedDifferential.component"])


def specs(prog, tier):
    out = []
    for cls, k, label, bnd in class_variants(prog, tier):
        out.append(fam_synthetic_partial(cls, k, label, bnd))
        out.append(fam_compute_synthetic_partials(cls, k, label, bnd))
    for kind in ("Partial.late", "Partial.early", "Derivative.late", "Derivative.early",
                 "Differential.late", "Differential.early"):
        out.append(fam_as_expression(kind))
    for r in ("Partial(early).at", "Partial(late).as_expression;at", "Derivative(early).at",
              "Differential(early).component_at", "Differential(early).component.at", "Differential(early).at.component"):
        out.append(fam_symbolic_route(r))
    return out
