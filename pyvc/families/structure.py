"""C12 (equality / hashing), C13 (printed form), C15 (operators), C16 (constructors) and the
constructor part of C14 (Vars = union of the children's)."""
from __future__ import annotations
import ast
import z3
from .. import harness as H, spec, sym, structural as st
from ..values import *
from ..interp import LazyOpt
from ..engine import FamilySpec
from ..builtin_contracts import SDict, NumBase
from .common import *

OPERAND_TAGS = ["Expr", "Foreign", "Int", "Float", "Str", "None"]


def tagged(I, tag, name):
    """A value of the tagged union of constructor / operator arguments."""
    if tag == "Expr":
        return I.contracts.make_child(I, name)
    if tag == "Foreign":
        return I.contracts.make_foreign(I, name)
    if tag == "Int":
        return SNum(z3.Int(name), True)
    if tag == "Float":
        return SNum(z3.Real(name), False)
    if tag == "Str":
        return SName(z3.Const(name, sym.Name))
    if tag == "None":
        return None
    raise KeyError(tag)


def structural_value(cz, I, v):
    """Concretise an argument for a structural replay: expression objects through their
    structural (datatype) term in the model."""
    if isinstance(v, Obj) and v.kind != "foreign" and v.kind != "exception" and (v.cls is None or v.cls.name in sym.CLS):
        return {"tree": cz.tree_from_T(st.T(I, v))}
    return cz.value(v)


def ctor_signature(cls):
    """Parameter names of the real constructor (after self); '*args' for var-positional."""
    init = cls.lookup("__init__")
    a = init.node.args
    names = [p.arg for p in a.args[1:]]
    if a.vararg is not None:
        names.append("*" + a.vararg.arg)
    return names


def wf_args(I, cls, args):
    """WF(args): the documented range of the constructor (C16), as a z3 Bool."""
    c = cls.name
    conds = []

    def is_expr(v):
        return isinstance(v, Obj) and v.kind == "child"

    if c == "Constant":
        return z3.BoolVal(True)
    if c == "Variable":
        n = args[0]
        if not isinstance(n, SName):
            return z3.BoolVal(False)
        return z3.And(I.bi.nonempty(n.term), I.bi.allword(n.term))
    if c in ("Add", "Multiply"):
        return z3.BoolVal(all(is_expr(a) for a in args))
    if c in ("Minus", "Divide", "Power"):
        return z3.BoolVal(is_expr(args[0]) and is_expr(args[1]))
    if not is_expr(args[0]):
        return z3.BoolVal(False)
    if c in ("NthPower", "NthRoot"):
        n = args[1]
        if not isinstance(n, SNum):
            return z3.BoolVal(False)
        if n.pyint is True:
            return n.term >= 1
        return z3.And(z3.IsInt(n.term), n.term >= 1)
    if c in ("Exponential", "Logarithm"):
        if len(args) < 2:
            return z3.BoolVal(True)          # default base e
        b = args[1]
        if not isinstance(b, SNum):
            return z3.BoolVal(False)
        t = sym.to_real(b.term)
        return t > 0 if c == "Exponential" else z3.And(t > 0, t != 1)
    return z3.BoolVal(True)


def arg_tag_combos(cls):
    c = cls.name
    if c == "Constant":
        return [["Int"], ["Float"]]
    if c == "Variable":
        return [["Str"], ["Int"], ["None"], ["Expr"]]
    if c in ("Add", "Multiply"):
        out = [[]]
        for k in (1, 2, 3):
            for bad in range(k + 1):
                for t in (["Expr"] if bad == k else ["Foreign", "Int", "None"]):
                    combo = ["Expr"] * k
                    if bad < k:
                        combo[bad] = t
                    if combo not in out:
                        out.append(combo)
        return out
    if c in ("Minus", "Divide", "Power"):
        return [[a, b] for a in OPERAND_TAGS for b in OPERAND_TAGS if a == "Expr" or b == "Expr" or (a, b) == ("Foreign", "Foreign")]
    if c in ("NthPower", "NthRoot"):
        return [["Expr", t] for t in ("Int", "Float", "Str", "None", "Expr")] + [["Foreign", "Int"], ["Int", "Int"]]
    if c in ("Exponential", "Logarithm"):
        return [["Expr", t] for t in ("Int", "Float", "Str", "None")] + [["Expr"], ["Foreign", "Float"], ["None"]]
    return [[t] for t in OPERAND_TAGS]


def fam_constructor(cls):
    def run(prog, tier):
        combos = arg_tag_combos(cls)
        fam_all = None
        for ci, combo in enumerate(combos):
            nm = f"{cls.name}.__init__[{','.join(combo) or 'no-args'}]"

            def setup(I, combo=combo):
                args = [tagged(I, t, f"arg{i}") for i, t in enumerate(combo)]
                I.ghost["args"] = args
                I.ghost["replay"] = {"kind": "constructor", "root": None, "pt": None, "x": None,
                                     "extra": {"cls": cls.name, "args": lambda cz: [structural_value(cz, I, a) for a in args]}}
                I.ghost.setdefault("ambient_names", [])

                def thunk():
                    return I.instantiate(cls, list(args), {})
                return thunk

            def post(I, res, emit, combo=combo):
                args = I.ghost["args"]
                wf = wf_args(I, cls, args)
                if res.outcome[0] == "raise":
                    emit("rejects=>ill-formed", ["C16"], z3.Not(wf), info=H.exc_kind(res.outcome[1]))
                    return
                o = res.outcome[1]
                emit("accepts=>well-formed", ["C16"], wf)
                f = o.fields
                c = cls.name
                # fields are the arguments
                ok = True
                if c == "Constant":
                    emit("value-reported-back", ["C16"], z3.BoolVal(f.get("value") is args[0]))
                elif c == "Variable":
                    emit("name-reported-back", ["C16"], z3.BoolVal(f.get("name") is args[0]))
                elif c in ("Add", "Multiply"):
                    inn = f.get("_inners")
                    emit("operands-stored-in-order", ["C16", "C15"],
                         z3.BoolVal(isinstance(inn, (list, tuple)) and len(inn) == len(args) and all(a is b for a, b in zip(inn, args))))
                    # the stored container is a fresh list or the (immutable, always fresh) varargs tuple
                    emit("operand-container-not-shared-with-caller", ["C10"], z3.BoolVal(isinstance(inn, (list, tuple))))
                elif c in ("Minus", "Divide", "Power"):
                    emit("operands-stored-in-order", ["C16", "C15"], z3.BoolVal(f.get("_left") is args[0] and f.get("_right") is args[1]))
                else:
                    emit("operand-stored", ["C16", "C15"], z3.BoolVal(f.get("_inner") is args[0]))
                    if c in ("NthPower", "NthRoot"):
                        p = f.get("_parameter")
                        n_reported = I.call_funcdef(cls.lookup("n"), [o], {})
                        good = is_num(p) and py_is_int(p) is True
                        emit("n-stored-as-int", ["C16"], z3.BoolVal(bool(good)))
                        if good and is_num(args[1]):
                            emit("n-reported-back", ["C16"], z3.And(sym.to_real(num_term(n_reported)) == sym.to_real(num_term(args[1]))))
                    if c in ("Exponential", "Logarithm"):
                        b = I.call_funcdef(cls.lookup("base"), [o], {})
                        if len(args) > 1:
                            emit("base-reported-back", ["C16"], z3.BoolVal(b is args[1]))
                        else:
                            emit("default-base-is-e", ["C16", "C01"], real_term(b) == sym.E)
                # C14 / C10: building a node leaves the operands' own variable sets as they were
                for a in args:
                    if isinstance(a, Obj) and a.kind == "child" and "vars_obj" in a.ghost:
                        emit(f"operand-variable-set-untouched[{a.name}]", ["C14", "C10"], a.ghost["vars_obj"].term == a.ghost["vars"])
                # C14: Vars(self) as stored equals the union of the children's (structural definition)
                vn = f.get("_variable_names")
                emit("variable-names=Vars", ["C14"], z3.BoolVal(isinstance(vn, SSet)) if not isinstance(vn, SSet)
                     else vn.term == spec.vars_of(I, o))
                # C09: memo / flags initialised
                emit("flags-initialised", ["C09"], z3.BoolVal(f.get("_is_fully_reduced") is False and f.get("_evaluation_failed") is False))
                if c not in ("Constant", "Variable"):
                    emit("memo-initialised", ["C09"], z3.BoolVal("_value" in f and f["_value"] is None))
            fam = H.run_family(prog, nm, setup, post)
            if fam_all is None:
                fam_all = fam
                fam_all.name = f"{cls.name}.__init__"
            else:
                fam_all.obls += fam.obls
                fam_all.paths += fam.paths
                fam_all.seconds += fam.seconds
                fam_all.error = fam_all.error or fam.error
        return fam_all
    return FamilySpec(f"{cls.name}.__init__", ["C16", "C14", "C15", "C09", "C10"], run,
                      functions=[f"{cls.name}.__init__", "utilities.integer_from_integral_float", "utilities.is_integer"])


# ---------------------------------------------------------------------------- C15 operators

OPS = [("__neg__", "Negation", 1), ("__add__", "Add", 2), ("__sub__", "Minus", 2), ("__mul__", "Multiply", 2),
       ("__truediv__", "Divide", 2), ("__pow__", "Power", 2)]


def fam_operator(op, target, nargs, recv=None):
    """recv: a concrete class that overrides the operator (then the receiver is an arbitrary
    object of that class and its own method runs); None: the inherited Expression method with a
    receiver of unknown class."""
    owner = recv.name if recv is not None else "Expression"

    def run(prog, tier):
        fam_all = None
        tags = [None] if nargs == 1 else OPERAND_TAGS
        for tag in tags:
            nm = f"{owner}.{op}[{tag or ''}]"

            def setup(I, tag=tag):
                a = I.contracts.make_child(I, "a") if recv is None else H.make_self(I, recv, 2 if recv.name in ("Add", "Multiply") else None, name="a")
                b = tagged(I, tag, "b") if tag else None
                I.ghost["a"], I.ghost["b"] = a, b
                I.ghost["replay"] = {"kind": "operator", "root": None, "pt": None, "x": None,
                                     "extra": {"op": op, "a": lambda cz: structural_value(cz, I, a),
                                               "b": lambda cz: (structural_value(cz, I, b) if nargs == 2 else None)}}
                fd = prog.classes["Expression"].methods[op] if recv is None else recv.lookup(op)
                return lambda: I.call_funcdef(fd, [a] + ([b] if nargs == 2 else []), {})

            def post(I, res, emit, tag=tag):
                a, b = I.ghost["a"], I.ghost["b"]
                if op == "__pow__" and tag in ("Int", "Float"):
                    t = b.term
                    integral_pos = (t >= 1) if tag == "Int" else z3.And(z3.IsInt(t), t >= 1)
                    if res.outcome[0] == "raise":
                        emit("rejects=>not-a-positive-integer", ["C15"], z3.Not(integral_pos))
                        return
                    o = res.outcome[1]
                    emit("accepts=>positive-integer", ["C15"], integral_pos)
                    good = isinstance(o, Obj) and o.cls is not None and o.cls.name == "NthPower" and o.fields.get("_inner") is a
                    emit("builds-NthPower(a,k)", ["C15"], z3.BoolVal(bool(good)))
                    if good:
                        emit("exponent-is-k", ["C15"], sym.to_real(num_term(o.fields["_parameter"])) == sym.to_real(t))
                    return
                if nargs == 2 and tag != "Expr":
                    emit("non-expression-operand-rejected", ["C15"], z3.BoolVal(res.outcome[0] == "raise"))
                    return
                if res.outcome[0] == "raise":
                    emit("expression-operands-accepted", ["C15"], z3.BoolVal(False), info=H.exc_kind(res.outcome[1]))
                    return
                o = res.outcome[1]
                good = isinstance(o, Obj) and o.cls is not None and o.cls.name == target
                if good:
                    kids = spec.children(o)
                    want = [a] if nargs == 1 else [a, b]
                    good = len(kids) == len(want) and all(x is y for x, y in zip(kids, want))
                emit(f"builds-{target}-of-the-operands-in-order", ["C15"], z3.BoolVal(bool(good)))
            fam = H.run_family(prog, nm, setup, post)
            if fam_all is None:
                fam_all = fam
                fam_all.name = f"{owner}.{op}"
            else:
                fam_all.obls += fam.obls
                fam_all.paths += fam.paths
                fam_all.error = fam_all.error or fam.error
        return fam_all
    return FamilySpec(f"{owner}.{op}", ["C15"], run, functions=[f"{owner}.{op}"])


def fam_no_reflected_operators():
    """`3 + e` must be rejected: holds because no class defines reflected operators."""
    def run(prog, tier):
        fam = H.Family("Expression.no-reflected-operators")
        bad = []
        for ci in prog.classes.values():
            for m in ci.methods:
                if m in ("__radd__", "__rsub__", "__rmul__", "__rtruediv__", "__rpow__"):
                    bad.append(f"{ci.name}.{m}")
        ob = H.Obl("Expression.no-reflected-operators/absent@0", ["C15"], [], z3.BoolVal(not bad), info=str(bad))
        fam.obls.append(ob)
        fam.paths = 1
        return fam
    return FamilySpec("Expression.no-reflected-operators", ["C15"], run)


# ---------------------------------------------------------------------------- C12 equality / hashing

def other_variants(cls):
    return ["same-class", "other-class", "Foreign", "Int", "None", "Str"]


def make_other(I, cls, arity, variant):
    if variant == "same-class":
        return H.make_self(I, cls, arity, name="other")
    if variant == "other-class":
        o = I.contracts.make_child(I, "other")
        I.path.assume(o.ghost["tag"] != sym.CLS[cls.name])
        return o
    return tagged(I, variant, "other")


def fam_eq(cls, arity, label, bounded):
    def run(prog, tier):
        fam_all = None
        fd = cls.lookup("__eq__")
        variants = other_variants(cls) + (["same-class-other-arity"] if arity is not None else [])
        for variant in variants:
            def setup(I, variant=variant):
                slf = H.make_self(I, cls, arity)
                if variant == "same-class-other-arity":
                    other = H.make_self(I, cls, arity + 1, name="other")
                else:
                    other = make_other(I, cls, arity, variant)
                I.ghost["self"], I.ghost["other"] = slf, other
                I.ghost["replay"] = {"kind": "eq_hash", "root": None, "pt": None, "x": None,
                                     "extra": {"a": lambda cz: structural_value(cz, I, slf), "b": lambda cz: structural_value(cz, I, other)}}
                return lambda: I.call_funcdef(fd, [slf, other], {})

            def post(I, res, emit, variant=variant):
                slf, other = I.ghost["self"], I.ghost["other"]
                if res.outcome[0] == "raise":
                    emit("never-raises", ["C12"], z3.BoolVal(False), info=f"{H.exc_kind(res.outcome[1])} at {res.outcome[2]}")
                    return
                r = res.outcome[1]
                rb = z3.BoolVal(r) if isinstance(r, bool) else r
                if not (z3.is_expr(rb) and z3.is_bool(rb)):
                    emit("returns-bool", ["C12"], z3.BoolVal(False), info=repr(r))
                    return
                if st.is_expr_obj(other):
                    want = st.T(I, slf) == st.T(I, other)
                else:
                    want = z3.BoolVal(False)
                emit("equals=structural-equality", ["C12"], rb == want)
            fam = H.run_family(prog, f"{label}.__eq__[{variant}]", setup, post, bounded=bounded)
            if fam_all is None:
                fam_all = fam
                fam_all.name = f"{label}.__eq__"
            else:
                fam_all.obls += fam.obls
                fam_all.paths += fam.paths
                fam_all.error = fam_all.error or fam.error
        return fam_all
    return FamilySpec(f"{label}.__eq__", ["C12", "C10"], run, functions=[f"{cls.name}.__eq__"])


def fam_hash(cls, arity, label, bounded):
    def run(prog, tier):
        fd = cls.lookup("__hash__")

        def setup(I):
            slf = H.make_self(I, cls, arity)
            other = H.make_self(I, cls, arity, name="other")
            I.ghost["self"], I.ghost["other"] = slf, other
            I.ghost["replay"] = {"kind": "eq_hash", "root": None, "pt": None, "x": None,
                                 "extra": {"a": lambda cz: structural_value(cz, I, slf), "b": lambda cz: structural_value(cz, I, other)}}

            def thunk():
                h1 = I.call_funcdef(fd, [slf], {})
                h2 = I.call_funcdef(fd, [other], {})
                return (h1, h2)
            return thunk

        def post(I, res, emit):
            slf, other = I.ghost["self"], I.ghost["other"]
            if res.outcome[0] == "raise":
                emit("never-raises", ["C12"], z3.BoolVal(False), info=H.exc_kind(res.outcome[1]))
                return
            h1, h2 = res.outcome[1]
            if not (is_num(h1) and is_num(h2)):
                emit("returns-int", ["C12"], z3.BoolVal(False))
                return
            emit("equal=>equal-hashes", ["C12"],
                 z3.Implies(st.T(I, slf) == st.T(I, other), num_term(h1) == num_term(h2)))
        return H.run_family(prog, f"{label}.__hash__", setup, post, bounded=bounded)
    return FamilySpec(f"{label}.__hash__", ["C12"], run, functions=[f"{cls.name}.__hash__"])


# ---------------------------------------------------------------------------- C13 printing

def tokenize(parts):
    """Tokens of a printed form: identifiers, punctuation, quoted / opaque atoms."""
    toks = []
    for p in parts:
        if isinstance(p, str):
            i = 0
            while i < len(p):
                ch = p[i]
                if ch.isspace():
                    i += 1
                elif ch.isalpha() or ch == "_":
                    j = i
                    while j < len(p) and (p[j].isalnum() or p[j] == "_"):
                        j += 1
                    toks.append(("id", p[i:j]))
                    i = j
                elif ch in "(),=\"":
                    toks.append((ch, ch))
                    i += 1
                else:
                    toks.append(("?", ch))
                    i += 1
        else:
            toks.append(("atom", p))
    return toks


def parse_call(toks):
    """`Name ( arg, ..., kw=arg )` -> (name, positional values, keyword values) or None.
    Values: opaque atoms, ("quoted", tokens), nested ("call", name, args, kwargs)."""
    r = _parse_call_at(toks, 0)
    if r is None or r[1] != len(toks):
        return None
    return r[0]


def _parse_value(toks, pos):
    if pos >= len(toks):
        return None
    t = toks[pos]
    if t[0] == "atom":
        return t[1], pos + 1
    if t[0] == "\"":
        pos += 1
        inner = []
        while pos < len(toks) and toks[pos][0] != "\"":
            inner.append(toks[pos])
            pos += 1
        if pos >= len(toks):
            return None
        return ("quoted", inner), pos + 1
    if t[0] == "id" and pos + 1 < len(toks) and toks[pos + 1][0] == "(":
        r = _parse_call_at(toks, pos)
        if r is None:
            return None
        (name, args, kwargs), pos2 = r
        return ("call", name, args, kwargs), pos2
    return None


def _parse_call_at(toks, pos):
    if pos >= len(toks) or toks[pos][0] != "id":
        return None
    name = toks[pos][1]
    pos += 1
    if pos >= len(toks) or toks[pos][0] != "(":
        return None
    pos += 1
    args, kwargs = [], {}
    while True:
        if pos < len(toks) and toks[pos][0] == ")":
            pos += 1
            break
        kw = None
        if pos + 1 < len(toks) and toks[pos][0] == "id" and toks[pos + 1][0] == "=":
            kw = toks[pos][1]
            pos += 2
        elif pos + 1 < len(toks) and toks[pos][0] == "atom" and isinstance(toks[pos][1], tuple) \
                and toks[pos][1][0] == "name" and toks[pos + 1][0] == "=":
            kw = ("name", toks[pos][1][1])        # a symbolic identifier used as keyword
            pos += 2
        r = _parse_value(toks, pos)
        if r is None:
            return None
        val, pos = r
        if kw is None:
            if kwargs:
                return None
            args.append(val)
        else:
            if kw in kwargs:
                return None
            kwargs[kw] = val
        if pos < len(toks) and toks[pos][0] == ",":
            pos += 1
            continue
        if pos < len(toks) and toks[pos][0] == ")":
            pos += 1
            break
        return None
    return (name, args, kwargs), pos


def atom_denotes(I, atom, value):
    """Does the printed atom evaluate to the given field value?  -> z3 Bool / bool."""
    if isinstance(value, Obj):
        return isinstance(atom, tuple) and atom[0] == "print" and atom[1] is value
    if isinstance(value, (SName, str)):
        # a variable may be printed as Variable("name"): the constructors accept either
        if isinstance(atom, tuple) and atom[0] == "call" and atom[1] == "Variable" and len(atom[2]) == 1 and not atom[3]:
            atom = atom[2][0]
        if not (isinstance(atom, tuple) and atom[0] == "quoted"):
            return False
        inner = atom[1]
        if len(inner) == 1 and inner[0][0] == "atom" and isinstance(inner[0][1], tuple) and inner[0][1][0] == "name":
            return inner[0][1][1] == I.bi.key_term(value)
        if isinstance(value, str) and len(inner) == 1 and inner[0] == ("id", value):
            return True
        return False
    if is_num(value):
        if isinstance(atom, tuple) and atom[0] == "num":
            # float/int repr round-trips (trusted); the printed number is the stored number
            return real_term(atom[1]) == real_term(value)
        return False
    return False


def fam_repr(cls, arity, label, bounded, method):
    def run(prog, tier):
        fd = cls.lookup(method)

        def setup(I):
            slf = H.make_self(I, cls, arity)
            I.ghost["self"] = slf
            I.ghost["replay"] = {"kind": "repr", "root": slf, "pt": None, "x": None}
            return lambda: I.call_funcdef(fd, [slf], {})

        def post(I, res, emit):
            slf = I.ghost["self"]
            if res.outcome[0] == "raise":
                emit("never-raises", ["C13"], z3.BoolVal(False), info=H.exc_kind(res.outcome[1]))
                return
            r = res.outcome[1]
            if not isinstance(r, (str, SStr)):
                emit("returns-str", ["C13"], z3.BoolVal(False), info=repr(r))
                return
            parsed = parse_call(tokenize(str_parts(r)))
            if parsed is None:
                emit("prints-a-constructor-call", ["C13"], z3.BoolVal(False), info=repr(r))
                return
            name, args, kwargs = parsed
            emit("prints-own-constructor-name", ["C13"], z3.BoolVal(name == cls.name), info=f"printed {name}(...) for a {cls.name}")
            # bind to the real constructor signature, then compare with the fields
            sig = ctor_signature(cls)
            c = cls.name
            want = {}
            if c == "Constant":
                want = {"value": slf.fields["value"]}
            elif c == "Variable":
                want = {"name": slf.fields["name"]}
            elif c in ("Add", "Multiply"):
                want = {"*args": slf.fields["_inners"]}
            elif c in ("Minus", "Divide", "Power"):
                want = {"left": slf.fields["_left"], "right": slf.fields["_right"]}
            else:
                want = {"inner": slf.fields["_inner"]}
                if c in ("NthPower", "NthRoot"):
                    want["n"] = slf.fields["_parameter"]
                if c in ("Exponential", "Logarithm"):
                    want["base"] = slf.fields["_parameter"]
            bound = {}
            ok = True
            if sig and sig[-1].startswith("*"):
                bound["*args"] = list(args)
                ok = not kwargs
            else:
                if len(args) > len(sig):
                    ok = False
                for pn, a in zip(sig, args):
                    bound[pn] = a
                for k, a in kwargs.items():
                    if k in bound or k not in sig:
                        ok = False
                    bound[k] = a
            conds = []
            # parameters left out of the printed call take the constructor's default
            init = cls.lookup("__init__").node.args
            pnames = [a.arg for a in init.args[1:]]
            defaults = dict(zip(pnames[len(pnames) - len(init.defaults):], init.defaults))
            if ok:
                for pn, val in want.items():
                    if pn != "*args" and pn not in bound and pn in defaults:
                        from ..interp import Env
                        dv = I.eval(defaults[pn], Env(cls.lookup("__init__").module))
                        conds.append(real_term(dv) == real_term(val) if is_num(dv) and is_num(val) else False)
                        continue
                    if pn == "*args":
                        got = bound.get("*args", [])
                        if len(got) != len(val):
                            ok = False
                            break
                        for a, v in zip(got, val):
                            conds.append(atom_denotes(I, a, v))
                    else:
                        if pn not in bound:
                            ok = False
                            break
                        conds.append(atom_denotes(I, bound[pn], val))
            goal = z3.BoolVal(False) if not ok else sym.conj([z3.BoolVal(x) if isinstance(x, bool) else x for x in conds])
            emit("printed-arguments-rebuild-the-object", ["C13"], goal, info=repr(r))
        return H.run_family(prog, f"{label}.{method}", setup, post, bounded=bounded)
    return FamilySpec(f"{label}.{method}", ["C13"], run, functions=[f"{cls.name}.{method}"])


def specs(prog, tier):
    out = []
    for cls in prog.concrete_expression_classes():
        out.append(fam_constructor(cls))
    for op, target, n in OPS:
        out.append(fam_operator(op, target, n))
        base_fd = prog.classes["Expression"].methods.get(op)
        for cls in prog.concrete_expression_classes():
            if cls.lookup(op) is not base_fd:
                out.append(fam_operator(op, target, n, recv=cls))       # a subclass overrides the operator
    out.append(fam_no_reflected_operators())
    for cls, k, label, bnd in class_variants(prog, tier):
        out.append(fam_eq(cls, k, label, bnd))
        out.append(fam_hash(cls, k, label, bnd))
        out.append(fam_repr(cls, k, label, bnd, "__repr__"))
        out.append(fam_repr(cls, k, label, bnd, "__str__"))
    return out
