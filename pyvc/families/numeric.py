"""C03 / C04 / C07 (+C14, C17, C09): numeric differentiation, forward and reverse mode, and the
numeric routes of the derivative wrapper classes."""
from __future__ import annotations
import z3
from .. import harness as H, spec, sym
from ..values import *
from ..engine import FamilySpec
from ..contracts import acc_view
from ..builtin_contracts import SDict, NumBase
from .common import *


def ambient_name(I, nm="x"):
    k = z3.Const(nm, sym.Name)
    I.ghost.setdefault("ambient_names", []).append(k)
    return k


def fam_numeric_partial(cls, arity, label, bounded):
    def run(prog, tier):
        fd = cls.lookup("_numeric_partial")

        def setup(I):
            pt = H.make_point(I)
            x = ambient_name(I)
            slf = H.make_self(I, cls, arity)
            H.set_memo_coherent(I, slf, pt)
            I.ghost["self"], I.ghost["pt"], I.ghost["x"] = slf, pt, x
            I.ghost["replay"] = {"kind": "numeric_routes", "root": slf, "pt": pt, "x": x}
            return lambda: I.call_funcdef(fd, [slf, SName(x), pt], {})

        def post(I, res, emit):
            slf, pt, x = I.ghost["self"], I.ghost["pt"], I.ghost["x"]
            eval_post(I, res, emit, slf, pt, value_of=lambda d: d.dV(x), props_value=("C03",), who="partial",
                      extra=H.child_facts(I, pt, [x]))
        return H.run_family(prog, f"{label}._numeric_partial", setup, post, bounded=bounded)
    return FamilySpec(f"{label}._numeric_partial", ["C03", "C07", "C14", "C17", "C09", "C02"], run,
                      functions=[f"{cls.name}._numeric_partial"])


def fam_absent_variable(cls, arity, label, bounded):
    """Spec lemma (no code): x not in Vars(e) => dV(e)(x) = 0, by induction over the table."""
    def run(prog, tier):
        def setup(I):
            pt = H.make_point(I)
            x = ambient_name(I)
            slf = H.make_self(I, cls, arity)
            I.ghost["self"], I.ghost["pt"], I.ghost["x"] = slf, pt, x
            return lambda: None

        def post(I, res, emit):
            slf, pt, x = I.ghost["self"], I.ghost["pt"], I.ghost["x"]
            d = spec.den(I, slf, pt)
            hyp = H.child_facts(I, pt, [x])
            emit("absent-variable=>zero-partial", ["C03", "C04"],
                 z3.Implies(z3.And(d.D, z3.Not(sym.member(x, spec.vars_of(I, slf)))), d.dV(x) == 0), extra=hyp)
        return H.run_family(prog, f"spec.absent-variable[{label}]", setup, post, bounded=bounded)
    return FamilySpec(f"spec.absent-variable[{label}]", ["C03", "C04"], run, functions=[])


def make_accumulator(I, name="acc"):
    acc = I.instantiate(I.prog.classes["NumericPartialsAccumulator"], [], {})
    present = z3.Const(f"{name}.present0", sym.NameSet)
    vals = z3.Const(f"{name}.vals0", z3.ArraySort(sym.Name, sym.R))
    acc.fields["_numeric_partials"] = SDict(base=NumBase(present, vals))
    I.heap_log.append(("store", acc, "_numeric_partials", "<harness>", True, id(acc.fields["_numeric_partials"])))
    return acc


def fam_compute_numeric_partials(cls, arity, label, bounded):
    def run(prog, tier):
        fd = cls.lookup("_compute_numeric_partials")

        def setup(I):
            pt = H.make_point(I)
            k = ambient_name(I, "k")
            slf = H.make_self(I, cls, arity)
            H.set_memo_coherent(I, slf, pt)
            acc = make_accumulator(I)
            m = SNum(z3.Real("m"), z3.Bool("m_is_int"))
            I.ghost.update({"self": slf, "pt": pt, "k": k, "acc": acc, "m": m,
                            "view0": acc_view(I, acc.fields["_numeric_partials"], k)})
            I.ghost["replay"] = {"kind": "numeric_routes", "root": slf, "pt": pt, "x": k}
            return lambda: I.call_funcdef(fd, [slf, acc, m, pt], {})

        def post(I, res, emit):
            g = I.ghost
            slf, pt, k, acc, m = g["self"], g["pt"], g["k"], g["acc"], g["m"]
            d = spec.den(I, slf, pt)
            S = spec.supplies(I, slf, pt)
            if res.outcome[0] == "ret":
                emit("returns=>D", ["C07", "C02"], d.D)
                v1 = acc_view(I, acc.fields["_numeric_partials"], k)
                emit("accumulates", ["C04"], v1 == g["view0"] + real_term(m) * d.dV(k), extra=H.child_facts(I, pt, [k]))
            else:
                kind = H.exc_kind(res.outcome[1])
                if kind == "DomainError":
                    emit("DomainError=>notD", ["C07", "C02"], z3.Not(d.D))
                elif kind == "CoordinateMissing":
                    emit("CoordinateMissing=>notS", ["C14"], z3.Not(S))
                else:
                    emit("no-other-exception", ["C17"], z3.BoolVal(False), info=f"{kind} at {res.outcome[2]}")
        return H.run_family(prog, f"{label}._compute_numeric_partials", setup, post, bounded=bounded)
    return FamilySpec(f"{label}._compute_numeric_partials", ["C04", "C07", "C14", "C17", "C09", "C02"], run,
                      functions=[f"{cls.name}._compute_numeric_partials", "NumericPartialsAccumulator.add_to"])


# ---------------------------------------------------------------------------- wrapper routes

def expr_child(I, name="e"):
    return I.contracts.make_child(I, name)


def variable_arg(I, x, as_object):
    """The differentiation variable given as a name or as a Variable object."""
    if not as_object:
        return SName(x)
    from ..interp import Raise, PathAbort
    try:
        return I.instantiate(I.prog.classes["Variable"], [SName(x)], {})
    except Raise:
        raise PathAbort()          # names the Variable constructor rejects are not Variables


def route_post(I, res, emit, e, pt, x, props=("C03", "C06"), extract=None):
    """Post-condition of a numeric derivative route on (e, x, pt)."""
    d = spec.den(I, e, pt)
    S = spec.supplies(I, e, pt)
    hyp = spec.absent_variable_facts(I, e, pt, [x])
    if res.outcome[0] == "ret":
        r = res.outcome[1] if extract is None else extract(res.outcome[1])
        emit("returns=>D", ["C07", "C06"], d.D)
        if not is_num(r):
            emit("returns-number", ["C17"], z3.BoolVal(False), info=repr(r))
            return
        emit("value=true-partial", list(props), real_term(r) == d.dV(x), extra=hyp)
    else:
        kind = H.exc_kind(res.outcome[1])
        if kind == "DomainError":
            emit("DomainError=>notD", ["C07", "C06"], z3.Not(d.D))
        elif kind == "CoordinateMissing":
            emit("CoordinateMissing=>notS", ["C14"], z3.Not(S))
        else:
            emit("no-other-exception", ["C17"], z3.BoolVal(False), info=f"{kind} at {res.outcome[2]}")


def fam_partial_at_late(as_object):
    nm = f"Partial.at[late,{'Variable' if as_object else 'str'}]"

    def run(prog, tier):
        def setup(I):
            pt = H.make_point(I)
            x = ambient_name(I)
            e = expr_child(I)
            I.ghost.update({"e": e, "pt": pt, "x": x})
            I.ghost["replay"] = {"kind": "numeric_routes", "root": e, "pt": pt, "x": x}

            def thunk():
                var = variable_arg(I, x, as_object)
                p = I.instantiate(prog.classes["Partial"], [e, var], {})
                return I.call(I.getattr_(p, "at"), [pt])
            return thunk

        def post(I, res, emit):
            g = I.ghost
            route_post(I, res, emit, g["e"], g["pt"], g["x"])
        return H.run_family(prog, nm, setup, post)
    return FamilySpec(nm, ["C03", "C06", "C07", "C14", "C17", "C09"], run,
                      functions=["Partial.__init__", "Partial.at", "partial._initial_synthetic_partial", "variable.get_variable_name"])


def fam_derivative_at_late(number, kind="late"):
    """kind: late (a fresh lazy object), early (compute_early=True), switched (a lazy object on
    which as_expression() was called before: it now answers through the stored symbolic partial)."""
    nm = f"Derivative.at[{kind},{'number' if number else 'Point'}]"

    def run(prog, tier):
        def setup(I):
            e = expr_child(I)
            I.ghost["e"] = e
            if number:
                arg = SNum(z3.Real("number"), z3.Bool("number_is_int"))
            else:
                arg = H.make_point(I)
            I.ghost["arg"] = arg
            I.ghost.setdefault("ambient_names", [])

            def thunk():
                dv = I.instantiate(prog.classes["Derivative"], [e], {"compute_early": True} if kind == "early" else {})
                I.ghost["derivative"] = dv
                x = I.bi.key_term(dv.fields["_variable_name"])
                I.ghost["x"] = x
                I.ghost["ambient_names"].append(x)
                if kind == "switched":
                    I.call(I.getattr_(dv, "as_expression"), [])
                return I.call(I.getattr_(dv, "at"), [arg])
            return thunk

        def post(I, res, emit):
            g = I.ghost
            e = g["e"]
            vs = spec.vars_of(I, e)
            if "derivative" not in g:
                # constructor rejected the expression
                emit("Derivative-rejects=>several-variables", ["C14"], sym.card(vs) >= 2)
                return
            emit("Derivative-accepts=>at-most-one-variable", ["C14"], sym.card(vs) <= 1)
            x = g["x"]
            emit("differentiates-wrt-the-variable", ["C03", "C14"],
                 z3.Implies(sym.card(vs) == 1, vs == sym.singleton(x)))
            if number:
                pts = [p for p in g.get("points", {}).values()]
                if len(pts) != 1:
                    emit("one-point-built", ["C03", "C14", "C17"], z3.BoolVal(False), info=f"{len(pts)} points")
                    return
                pt = pts[0]
                k = z3.Const("k!any", sym.Name)
                emit("number-line-point", ["C03", "C14"],
                     z3.Implies(sym.member(k, vs),
                                z3.And(spec.point_has(I, pt, k), spec.point_val(I, pt, k) == real_term(g["arg"]))))
            else:
                pt = g["arg"]
            route_post(I, res, emit, e, pt, x)
        return H.run_family(prog, nm, setup, post, force_contract=() if kind == "late" else ("_normalize",))
    return FamilySpec(nm, (["C03"] if kind == "late" else ["C05"]) + ["C06", "C07", "C14", "C17", "C09"], run,
                      functions=["Derivative.__init__", "Derivative.at", "Derivative.as_expression", "Partial.at",
                                 "expression.get_the_single_variable_name"])


def fam_numeric_partials_entry():
    """Expression._numeric_partials (public-ish entry used by LocatedDifferential)."""
    nm = "Expression._numeric_partials"

    def run(prog, tier):
        def setup(I):
            pt = H.make_point(I)
            k = ambient_name(I, "k")
            e = expr_child(I)
            I.ghost.update({"e": e, "pt": pt, "k": k})
            return lambda: I.call(I.getattr_(e, "_numeric_partials"), [pt])

        def post(I, res, emit):
            g = I.ghost
            e, pt, k = g["e"], g["pt"], g["k"]

            def extract(dct):
                # the result read like LocatedDifferential.component does
                return I.bi.dict_get(dct, SName(k), 0)
            if res.outcome[0] == "ret":
                # reading the dict forks; do it inside a sub-exploration-free way: views
                dct = res.outcome[1]
                d = spec.den(I, e, pt)
                emit("returns=>D", ["C07"], d.D)
                I.ghost["result_dict"] = dct
            else:
                route_post(I, res, emit, e, pt, k, props=("C04",))
        return H.run_family(prog, nm, setup, post)
    return FamilySpec(nm, ["C04", "C07", "C14", "C17", "C09"], run,
                      functions=["Expression._numeric_partials", "NumericPartialsAccumulator.__init__",
                                 "NumericPartialsAccumulator.numeric_partials_for"])


def fam_located_differential(as_object):
    nm = f"LocatedDifferential.component[{'Variable' if as_object else 'str'}]"

    def run(prog, tier):
        def setup(I):
            pt = H.make_point(I)
            x = ambient_name(I)
            e = expr_child(I)
            I.ghost.update({"e": e, "pt": pt, "x": x})
            I.ghost["replay"] = {"kind": "numeric_routes", "root": e, "pt": pt, "x": x}

            def thunk():
                ldf = I.instantiate(prog.classes["LocatedDifferential"], [e, pt], {})
                var = variable_arg(I, x, as_object)
                return I.call(I.getattr_(ldf, "component"), [var])
            return thunk

        def post(I, res, emit):
            g = I.ghost
            route_post(I, res, emit, g["e"], g["pt"], g["x"], props=("C04", "C06"))
        return H.run_family(prog, nm, setup, post)
    return FamilySpec(nm, ["C04", "C06", "C07", "C14", "C17", "C09"], run,
                      functions=["LocatedDifferential.__init__", "LocatedDifferential.component",
                                 "located_differential._initial_numeric_partials", "Expression._numeric_partials",
                                 "NumericPartialsAccumulator.numeric_partials_for"])


def fam_differential_late(route):
    nm = f"Differential[late].{route}"

    def run(prog, tier):
        def setup(I):
            pt = H.make_point(I)
            x = ambient_name(I)
            e = expr_child(I)
            I.ghost.update({"e": e, "pt": pt, "x": x})
            I.ghost["replay"] = {"kind": "numeric_routes", "root": e, "pt": pt, "x": x}

            def thunk():
                df = I.instantiate(prog.classes["Differential"], [e], {})
                if route == "at.component":
                    ldf = I.call(I.getattr_(df, "at"), [pt])
                    return I.call(I.getattr_(ldf, "component"), [SName(x)])
                if route == "component_at":
                    return I.call(I.getattr_(df, "component_at"), [SName(x), pt])
                if route == "component.at":
                    p = I.call(I.getattr_(df, "component"), [SName(x)])
                    return I.call(I.getattr_(p, "at"), [pt])
                raise KeyError(route)
            return thunk

        def post(I, res, emit):
            g = I.ghost
            route_post(I, res, emit, g["e"], g["pt"], g["x"], props=("C04", "C06") if route == "at.component" else ("C03", "C06"))
        return H.run_family(prog, nm, setup, post)
    return FamilySpec(nm, ["C03", "C04", "C06", "C07", "C14", "C17", "C09"], run,
                      functions=["Differential.__init__", "Differential.at", "Differential.component",
                                 "Differential.component_at", "differential._initial_synthetic_partials"])


def specs(prog, tier):
    out = []
    for cls, k, label, bnd in class_variants(prog, tier):
        out.append(fam_numeric_partial(cls, k, label, bnd))
        out.append(fam_absent_variable(cls, k, label, bnd))
        out.append(fam_compute_numeric_partials(cls, k, label, bnd))
    for b in (False, True):
        out.append(fam_partial_at_late(b))
        out.append(fam_derivative_at_late(b))
        out.append(fam_derivative_at_late(b, "early"))
        out.append(fam_derivative_at_late(b, "switched"))
        out.append(fam_located_differential(b))
    out.append(fam_numeric_partials_entry())
    for r in ("at.component", "component_at", "component.at"):
        out.append(fam_differential_late(r))
    return out
