"""C09 (history independence), C06 (route agreement corollaries), C17 (static safety bits)."""
from __future__ import annotations
import ast
import z3
from .. import harness as H, spec, sym, structural as st, frames
from ..values import *
from ..interp import Raise, LazyOpt
from ..contracts import ALLNONE
from ..engine import FamilySpec
from .common import *
from .numeric import ambient_name, expr_child, route_post


def fam_reset(cls, arity, label, bounded):
    """P1: _reset_evaluation_cache leaves every memo reachable from self empty."""
    def run(prog, tier):
        fd = cls.lookup("_reset_evaluation_cache")

        def setup(I):
            slf = H.make_self(I, cls, arity)
            H.set_memo_arbitrary(I, slf)
            I.ghost["self"] = slf
            return lambda: I.call_funcdef(fd, [slf], {})

        def post(I, res, emit):
            slf = I.ghost["self"]
            if res.outcome[0] == "raise":
                emit("no-exception", ["C09", "C17"], z3.BoolVal(False), info=H.exc_kind(res.outcome[1]))
                return
            if "_value" in slf.fields:
                emit("own-memo-cleared", ["C09"], z3.BoolVal(slf.fields["_value"] is None))
            for ch in H.self_children(slf):
                emit(f"memo-of-{ch.name}-cleared", ["C09"], z3.BoolVal(I.contracts.coh_state(I, ch) == ALLNONE))
        return H.run_family(prog, f"{label}._reset_evaluation_cache", setup, post, bounded=bounded)
    return FamilySpec(f"{label}._reset_evaluation_cache", ["C09", "C17"], run, functions=[f"{cls.name}._reset_evaluation_cache"])


def fam_history_at_at(cls, arity, label, bounded):
    """Two-step history on one object: at(p1) (any outcome, also failing half-way), then
    at(p2): the second answer is the one a fresh copy would give."""
    def run(prog, tier):
        fd = prog.classes["Expression"].methods["at"]

        def setup(I):
            I.ghost["ambient_names"] = []
            slf = H.make_self(I, cls, arity)
            H.set_memo_arbitrary(I, slf)
            p1, p2 = H.make_point(I, "p1"), H.make_point(I, "p2")
            I.ghost.update({"self": slf, "p1": p1, "p2": p2})
            I.ghost["replay"] = {"kind": "evaluate", "root": slf, "pt": p2, "x": z3.Const("x", sym.Name)}

            def thunk():
                try:
                    I.call_funcdef(fd, [slf, p1], {})
                except Raise:
                    pass                      # an earlier call that failed part-way
                return I.call_funcdef(fd, [slf, p2], {})
            return thunk

        def post(I, res, emit):
            eval_post(I, res, emit, I.ghost["self"], I.ghost["p2"], props_value=("C09", "C01"))
        return H.run_family(prog, f"history[{label}.at(p1);at(p2)]", setup, post, bounded=bounded)
    return FamilySpec(f"history[{label}.at(p1);at(p2)]", ["C09", "C01", "C02", "C14", "C17"], run,
                      functions=["Expression.at", f"{cls.name}._reset_evaluation_cache", f"{cls.name}._evaluate"])


def fam_history_shared(kind):
    """Two roots sharing a sub-expression object, queried at different points."""
    nm = f"history[shared-child;{kind}]"

    def run(prog, tier):
        C = prog.classes

        def setup(I):
            x = ambient_name(I)
            c = expr_child(I, "shared")
            other = expr_child(I, "other")
            p1, p2 = H.make_point(I, "p1"), H.make_point(I, "p2")
            I.ghost.update({"c": c, "other": other, "p1": p1, "p2": p2, "x": x})

            def thunk():
                e1 = I.instantiate(C["Multiply"], [c, other], {})
                e2 = I.instantiate(C["Sine"], [c], {})
                I.ghost["e2"] = e2
                I.ghost["replay"] = {"kind": "numeric_routes", "root": e2, "pt": p2, "x": x}
                try:
                    if kind == "at;Partial.at":
                        I.call(I.getattr_(e1, "at"), [p1])
                    else:
                        pp = I.instantiate(C["Partial"], [e1, SName(x)], {})
                        I.call(I.getattr_(pp, "at"), [p1])
                except Raise:
                    pass
                if kind == "Partial.at;at":
                    return I.call(I.getattr_(e2, "at"), [p2])
                pq = I.instantiate(C["Partial"], [e2, SName(x)], {})
                return I.call(I.getattr_(pq, "at"), [p2])
            return thunk

        def post(I, res, emit):
            g = I.ghost
            if "e2" not in g:
                return
            if kind == "Partial.at;at":
                eval_post(I, res, emit, g["e2"], g["p2"], props_value=("C09",))
            else:
                route_post(I, res, emit, g["e2"], g["p2"], g["x"], props=("C09",))
        return H.run_family(prog, nm, setup, post)
    return FamilySpec(nm, ["C09", "C17"], run, functions=["Expression.at", "Partial.at"])


# ---------------------------------------------------------------------------- C06 corollaries

def fam_component_is_partial(early):
    nm = f"Differential({'early' if early else 'late'}).component==Partial"

    def run(prog, tier):
        def setup(I):
            x = ambient_name(I)
            e = expr_child(I)
            I.ghost.update({"e": e, "x": x})

            def thunk():
                df = I.instantiate(prog.classes["Differential"], [e], {"compute_early": early})
                return I.call(I.getattr_(df, "component"), [SName(x)])
            return thunk

        def post(I, res, emit):
            e, x = I.ghost["e"], I.ghost["x"]
            if res.outcome[0] == "raise":
                emit("no-exception", ["C06", "C17"], z3.BoolVal(False), info=H.exc_kind(res.outcome[1]))
                return
            p = res.outcome[1]
            ok = isinstance(p, Obj) and getattr(p.cls, "name", None) == "Partial" and p.fields.get("_original_expression") is e
            emit("component-is-a-Partial-of-the-same-expression", ["C06"], z3.BoolVal(bool(ok)))
            if ok:
                emit("component-is-for-the-same-variable", ["C06"], I.bi.key_term(p.fields["_variable_name"]) == x)
        return H.run_family(prog, nm, setup, post, force_contract=("_normalize",))
    return FamilySpec(nm, ["C06", "C17"], run, functions=["Differential.component", "Partial.__init__"])


def fam_at_is_located(early):
    nm = f"Differential({'early' if early else 'late'}).at==LocatedDifferential"

    def run(prog, tier):
        def setup(I):
            I.ghost.setdefault("ambient_names", [])
            e = expr_child(I)
            pt = H.make_point(I)
            I.ghost.update({"e": e, "pt": pt})

            def thunk():
                df = I.instantiate(prog.classes["Differential"], [e], {"compute_early": early})
                return I.call(I.getattr_(df, "at"), [pt])
            return thunk

        def post(I, res, emit):
            e, pt = I.ghost["e"], I.ghost["pt"]
            if res.outcome[0] == "raise":
                return              # covered by the route obligations (C07)
            p = res.outcome[1]
            ok = isinstance(p, Obj) and getattr(p.cls, "name", None) == "LocatedDifferential" \
                and p.fields.get("_original_expression") is e and p.fields.get("_point") is pt
            emit("at-is-the-LocatedDifferential-of-the-same-expression-and-point", ["C06"], z3.BoolVal(bool(ok)))
        return H.run_family(prog, nm, setup, post, force_contract=("_normalize",))
    return FamilySpec(nm, ["C06", "C17"], run, functions=["Differential.at", "LocatedDifferential.__init__"])


def fam_as_expression_same_computation():
    """Early and late as_expression(): both are _retrieve_synthetic_partial(e, x), i.e. the same
    calls on the same (immutable) arguments; equal results then follow from C09 / C10."""
    nm = "Partial.as_expression[early==late]"

    def run(prog, tier):
        logs = {}
        fam_all = None
        for early in (False, True):
            def setup(I, early=early):
                x = ambient_name(I)
                e = expr_child(I)
                I.ghost.update({"e": e, "x": x})

                def thunk():
                    p = I.instantiate(prog.classes["Partial"], [e, SName(x)], {"compute_early": early})
                    return I.call(I.getattr_(p, "as_expression"), [])
                return thunk

            def post(I, res, emit, early=early):
                calls = [(c[0], c[1].split("#")[0]) for c in I.call_log]
                logs.setdefault(early, []).append(calls)
                if early and False in logs:
                    emit("same-calls-on-the-same-arguments", ["C06"], z3.BoolVal(calls in logs[False]),
                         info=f"late={logs[False]} early={calls}")
            fam = H.run_family(prog, f"{nm}[{'early' if early else 'late'}]", setup, post, force_contract=("_normalize",))
            if fam_all is None:
                fam_all, fam_all.name = fam, nm
            else:
                fam_all.obls += fam.obls
                fam_all.paths += fam.paths
                fam_all.error = fam_all.error or fam.error
        return fam_all
    return FamilySpec(nm, ["C06"], run, functions=["Partial.as_expression", "partial._retrieve_synthetic_partial"])


def fam_route_corollary():
    """post(R1) and post(R2) => same outcome, for any two routes (pure logic over the route
    contracts proved elsewhere)."""
    def run(prog, tier):
        fam = H.Family("routes.corollary")
        D, S = z3.Bools("D S")
        dV = z3.Real("dV")
        outs = []
        for i in (1, 2):
            ret, dom, cm = z3.Bools(f"ret{i} dom{i} cm{i}")
            r = z3.Real(f"r{i}")
            contract = z3.And(z3.Or(ret, dom, cm), z3.Not(z3.And(ret, dom)), z3.Not(z3.And(ret, cm)), z3.Not(z3.And(dom, cm)),
                              z3.Implies(ret, z3.And(D, r == dV)), z3.Implies(dom, z3.Not(D)), z3.Implies(cm, z3.Not(S)))
            outs.append((ret, dom, cm, r, contract))
        (ret1, dom1, cm1, r1, c1), (ret2, dom2, cm2, r2, c2) = outs
        goal = z3.Implies(S, z3.Or(z3.And(ret1, ret2, r1 == r2), z3.And(dom1, dom2)))
        ob = H.Obl("routes.corollary/same-number-or-both-DomainError@0", ["C06"], [c1, c2], goal, kind="lemma")
        fam.obls.append(ob)
        fam.paths = 1
        return fam
    return FamilySpec("routes.corollary", ["C06"], run)


# ---------------------------------------------------------------------------- C17 static

def fam_abstract_overridden():
    def run(prog, tier):
        fam = H.Family("abstract-methods-overridden")
        i = 0
        for cls in prog.concrete_expression_classes():
            for c in cls.mro:
                for name, fd in c.methods.items():
                    if fd.is_abstract:
                        impl = cls.lookup(name)
                        ok = impl is not None and not impl.is_abstract
                        fam.obls.append(H.Obl(f"abstract-methods-overridden/{cls.name}.{name}@{i}", ["C17"], [], z3.BoolVal(bool(ok)),
                                              kind="mro", info=f"resolved to {impl.qualname if impl else None}"))
                        i += 1
        fam.paths = i
        return fam
    return FamilySpec("abstract-methods-overridden", ["C17"], run)


ONCE_FOR_ALL = ("_consolidate_expression_lacking_variables", "_fully_reduce", "_normalize", "_numeric_partials",
                "_synthetic_partials", "at")


def fam_base_methods_inherited():
    """The public entries and drivers defined on Expression are proved once, for the inherited
    implementation with a receiver of unknown class, and that contract is assumed for every
    operand.  A subclass that overrides one of them is outside those proofs: the check is then
    undecided for the properties that rest on the method (the operator dunders get a family of
    their own per overriding class instead, see structure.py)."""
    def run(prog, tier):
        fam = H.Family("base-methods-inherited")
        base = prog.classes["Expression"]
        bad = []
        n = 0
        for cls in prog.concrete_expression_classes():
            for name in ONCE_FOR_ALL:
                fd = base.methods.get(name)
                if fd is None:
                    continue
                n += 1
                if cls.lookup(name) is not fd:
                    bad.append(f"{cls.name}.{name}")
                else:
                    fam.obls.append(H.Obl(f"base-methods-inherited/{cls.name}.{name}@{n}", PROPS_ON_BASE, [], z3.BoolVal(True), kind="mro"))
        fam.paths = n
        if bad:
            fam.error = ("unsupported: " + ", ".join(bad) + " override(s) a method of Expression that is proved once for the inherited "
                         "implementation; the override has no contract of its own")
        return fam
    return FamilySpec("base-methods-inherited", PROPS_ON_BASE, run)


PROPS_ON_BASE = ["C01", "C02", "C03", "C04", "C05", "C06", "C07", "C08", "C09", "C14", "C17"]


def specs(prog, tier):
    out = [fam_base_methods_inherited()]
    for cls, k, label, bnd in class_variants(prog, tier):
        out.append(fam_reset(cls, k, label, bnd))
        out.append(fam_history_at_at(cls, k, label, bnd))
    for kind in ("at;Partial.at", "Partial.at;Partial.at", "Partial.at;at"):
        out.append(fam_history_shared(kind))
    for early in (False, True):
        out.append(fam_component_is_partial(early))
        out.append(fam_at_is_located(early))
    out.append(fam_as_expression_same_computation())
    out.append(fam_route_corollary())
    out.append(fam_abstract_overridden())
    return out
