"""G-mode families: Add / Multiply of *symbolic* arity k >= 0 (unbounded).  Where a G-mode family
discharges, the property holds for every arity; the K-mode families remain as a cross-check."""
from __future__ import annotations
import z3
from .. import harness as H, spec, sym, gmode
from ..gmode import ChildFamily, StarArgs, qm
from ..values import *
from ..interp import LazyOpt
from ..engine import FamilySpec
from .common import *


# the families that establish helper contracts run in every check whose symbolic-arity families may
# use them (their obligations count only for the properties they are tagged with)
HELPER_PROPS = ["C01", "C02", "C03", "C04", "C05", "C06", "C07", "C08", "C09", "C10", "C14", "C17"]


def make_self_g(I, cls, name="self", raw=False):
    k = z3.Int("k")
    I.path.assume(k >= 0)
    fam = ChildFamily(I, f"{name}._inners", k)
    o = Obj(cls, name)
    init = cls.lookup("__init__")
    o.in_init = True
    from ..interp import Raise, PathAbort
    try:
        I.call_funcdef(init, [o, StarArgs(fam.slist(I))], {})
    except Raise:
        raise PathAbort()
    finally:
        o.in_init = False
    I.ghost["family"] = fam
    if raw:
        return o            # exactly as the constructor left it
    o.fields["_is_fully_reduced"] = z3.Bool(f"fr[{name}]")
    o.fields["_evaluation_failed"] = z3.Bool(f"ef[{name}]")
    H.set_memo_arbitrary(I, o)
    return o


def memo_coherent_g(I, o, pt):
    d = spec.den(I, o, pt)
    isnone = z3.Bool(f"{o.name}._value_is_none")
    I.path.assume(z3.Or(isnone, z3.And(d.D, supplies_all(I, o, pt))))
    o.fields["_value"] = LazyOpt(isnone, SNum(d.V, z3.Bool(f"{o.name}._value_is_int")))
    I.ghost.setdefault("coh_fam", {})[I.ghost["family"].name] = ("coh", id(pt))


def supplies_all(I, o, pt):
    """S(self,p) for a symbolic-arity node: every child is supplied (a Bool constant with
    instantiable meaning); equivalent to Vars(self) subset dom p."""
    fam = I.ghost["family"]
    return gmode.forall_const(I, fam.length, lambda t: spec.supplies(I, fam.child(I, t), pt), f"S({o.name})")


def eval_post_g(I, res, emit, slf, pt, value_of=None, props_value=("C01",), partial=False):
    d = spec.den(I, slf, pt)
    Sall = supplies_all(I, slf, pt)
    if res.outcome[0] == "ret":
        r = res.outcome[1]
        if not is_num(r):
            emit("returns-number", ["C17"] + list(props_value), z3.BoolVal(False), info=repr(r))
            return
        emit("returns=>D", ["C02", "C07"], d.D)
        if not partial:
            emit("returns=>S", ["C14"], Sall)
            emit("S-is-Vars-subset-of-point", ["C14"],
                 z3.Implies(Sall, gmode.skolem_subset(I, spec.vars_of(I, slf), spec.point_present_set(I, pt), "S")))
        want = d.V if value_of is None else value_of(d)
        emit("value", list(props_value), real_term(r) == want)
    else:
        k = H.exc_kind(res.outcome[1])
        if k == "DomainError":
            emit("DomainError=>notD", ["C02", "C07"], z3.Not(d.D))
        elif k == "CoordinateMissing":
            emit("CoordinateMissing=>notS", ["C14"], z3.Not(Sall))
            emit("CoordinateMissing=>Vars-not-subset-of-point", ["C14"], z3.Not(spec.supplies(I, slf, pt)))
        else:
            emit("no-other-exception", ["C17"], z3.BoolVal(False), info=f"{k} raised at {res.outcome[2]}")


def fam_g_evaluate(cls):
    def run(prog, tier):
        fd = cls.lookup("_evaluate")

        def setup(I):
            pt = H.make_point(I)
            I.ghost["ambient_names"] = []
            slf = make_self_g(I, cls)
            memo_coherent_g(I, slf, pt)
            I.ghost["self"], I.ghost["pt"] = slf, pt
            return lambda: I.call_funcdef(fd, [slf, pt], {})

        def post(I, res, emit):
            slf, pt = I.ghost["self"], I.ghost["pt"]
            eval_post_g(I, res, emit, slf, pt)
            v = slf.fields.get("_value")
            if is_num(v):
                d = spec.den(I, slf, pt)
                emit("memo-coherent", ["C09"], z3.And(d.D, supplies_all(I, slf, pt), real_term(v) == d.V))
        return H.run_family(prog, f"{cls.name}[any arity]._evaluate", setup, post)
    return FamilySpec(f"{cls.name}[any arity]._evaluate", ["C01", "C02", "C14", "C17", "C09"], run,
                      functions=[f"{cls.name}._evaluate"])


def specs(prog, tier):
    out = []
    for name in ("Add", "Multiply"):
        cls = prog.classes[name]
        out.append(fam_g_evaluate(cls))
    return out


def fam_g_at(cls):
    def run(prog, tier):
        fd = prog.classes["Expression"].methods["at"]

        def setup(I):
            pt = H.make_point(I)
            I.ghost["ambient_names"] = []
            slf = make_self_g(I, cls)           # memo arbitrary, children's memo unknown (public entry)
            I.ghost["self"], I.ghost["pt"] = slf, pt
            return lambda: I.call_funcdef(fd, [slf, pt], {})

        def post(I, res, emit):
            eval_post_g(I, res, emit, I.ghost["self"], I.ghost["pt"])
        return H.run_family(prog, f"{cls.name}[any arity].at(Point)", setup, post)
    return FamilySpec(f"{cls.name}[any arity].at(Point)", ["C01", "C02", "C14", "C17", "C09"], run,
                      functions=["Expression.at", f"{cls.name}._reset_evaluation_cache", f"{cls.name}._evaluate"])


def fam_g_reset(cls):
    def run(prog, tier):
        fd = cls.lookup("_reset_evaluation_cache")

        def setup(I):
            slf = make_self_g(I, cls)
            I.ghost["self"] = slf
            return lambda: I.call_funcdef(fd, [slf], {})

        def post(I, res, emit):
            slf = I.ghost["self"]
            if res.outcome[0] == "raise":
                emit("no-exception", ["C09", "C17"], z3.BoolVal(False), info=H.exc_kind(res.outcome[1]))
                return
            emit("own-memo-cleared", ["C09"], z3.BoolVal(slf.fields["_value"] is None))
            st = I.ghost.get("coh_fam", {}).get(I.ghost["family"].name)
            emit("memo-of-every-child-cleared", ["C09"], z3.BoolVal(st == "allnone"))
        return H.run_family(prog, f"{cls.name}[any arity]._reset_evaluation_cache", setup, post)
    return FamilySpec(f"{cls.name}[any arity]._reset_evaluation_cache", ["C09", "C17"], run,
                      functions=[f"{cls.name}._reset_evaluation_cache"])


def fam_g_init(cls):
    def run(prog, tier):
        def setup(I):
            I.ghost["ambient_names"] = []
            slf = make_self_g(I, cls, raw=True)
            I.ghost["self"] = slf
            return lambda: slf

        def post(I, res, emit):
            slf = I.ghost["self"]
            fam = I.ghost["family"]
            f = slf.fields
            # (this post-condition is the contract gexec.helper_nary_init uses for nodes built
            # inside element functions)
            emit("fresh-node-state", ["C09", "C16"], z3.BoolVal(
                f.get("_value", 0) is None and f.get("_is_fully_reduced", None) is False and f.get("_evaluation_failed", None) is False
                and set(f) == {"_inners", "_variable_names", "_value", "_is_fully_reduced", "_evaluation_failed"}),
                info=f"fields after construction: {sorted(f)}")
            inn = f.get("_inners")
            emit("operands-stored-in-order", ["C16", "C15"],
                 z3.BoolVal(isinstance(inn, gmode.SList) and inn.family is fam and inn.length.get_id() == fam.length.get_id()))
            vn = f.get("_variable_names")
            emit("variable-names=Vars", ["C14"], vn.term == spec.vars_of(I, slf) if isinstance(vn, SSet) else z3.BoolVal(False))
            emit("memo-initialised", ["C09"], z3.BoolVal(True))
        return H.run_family(prog, f"{cls.name}[any arity].__init__", setup, post)
    return FamilySpec(f"{cls.name}[any arity].__init__", sorted(set(["C16", "C14", "C15", "C09"] + HELPER_PROPS)), run, functions=[f"{cls.name}.__init__"])


def fam_g_numeric_partial(cls):
    def run(prog, tier):
        fd = cls.lookup("_numeric_partial")

        def setup(I):
            pt = H.make_point(I)
            x = z3.Const("x", sym.Name)
            I.ghost["ambient_names"] = [x]
            slf = make_self_g(I, cls)
            memo_coherent_g(I, slf, pt)
            I.ghost.update({"self": slf, "pt": pt, "x": x})
            return lambda: I.call_funcdef(fd, [slf, SName(x), pt], {})

        def post(I, res, emit):
            g = I.ghost
            eval_post_g(I, res, emit, g["self"], g["pt"], value_of=lambda d: d.dV(g["x"]), props_value=("C03",), partial=True)
        return H.run_family(prog, f"{cls.name}[any arity]._numeric_partial", setup, post)
    return FamilySpec(f"{cls.name}[any arity]._numeric_partial", ["C03", "C07", "C14", "C17", "C09", "C02"], run,
                      functions=[f"{cls.name}._numeric_partial"])


def fam_g_compute_numeric_partials(cls):
    def run(prog, tier):
        from .numeric import make_accumulator
        from ..contracts import acc_view
        fd = cls.lookup("_compute_numeric_partials")

        def setup(I):
            pt = H.make_point(I)
            kname = z3.Const("kname", sym.Name)
            I.ghost["ambient_names"] = [kname]
            slf = make_self_g(I, cls)
            memo_coherent_g(I, slf, pt)
            acc = make_accumulator(I)
            m = SNum(z3.Real("m"), z3.Bool("m_is_int"))
            I.ghost.update({"self": slf, "pt": pt, "kname": kname, "acc": acc, "m": m,
                            "view0": acc_view(I, acc.fields["_numeric_partials"], kname)})
            return lambda: I.call_funcdef(fd, [slf, acc, m, pt], {})

        def post(I, res, emit):
            g = I.ghost
            slf, pt, kname, acc, m = g["self"], g["pt"], g["kname"], g["acc"], g["m"]
            d = spec.den(I, slf, pt)
            if res.outcome[0] == "ret":
                emit("returns=>D", ["C07", "C02"], d.D)
                v1 = acc_view(I, acc.fields["_numeric_partials"], kname)
                emit("accumulates", ["C04"], v1 == g["view0"] + real_term(m) * d.dV(kname))
            else:
                kind = H.exc_kind(res.outcome[1])
                if kind == "DomainError":
                    emit("DomainError=>notD", ["C07", "C02"], z3.Not(d.D))
                elif kind == "CoordinateMissing":
                    emit("CoordinateMissing=>notS", ["C14"], z3.Not(supplies_all(I, slf, pt)))
                else:
                    emit("no-other-exception", ["C17"], z3.BoolVal(False), info=f"{kind} at {res.outcome[2]}")
        return H.run_family(prog, f"{cls.name}[any arity]._compute_numeric_partials", setup, post)
    return FamilySpec(f"{cls.name}[any arity]._compute_numeric_partials", ["C04", "C07", "C14", "C17", "C09", "C02"], run,
                      functions=[f"{cls.name}._compute_numeric_partials"])


def fam_g_helper_multiply():
    """math_functions.multiply(*args) for an argument list of any length: the contract that the
    other symbolic-arity families use (gexec.HELPER_CONTRACTS) is discharged here against the
    real body (loop invariant MultiplyLoop)."""
    nm = "math_functions.multiply[any arity]"

    def run(prog, tier):
        from ..gmode import SList
        fd = prog.func("math_functions.multiply")

        def setup(I):
            I.ghost["inline_helper"] = fd.qualname
            k = z3.Int("k")
            I.path.assume(k >= 0)
            A = z3.Function("arg", z3.IntSort(), z3.RealSort())
            isint = z3.Function("arg_is_int", z3.IntSort(), z3.BoolSort())
            sl = SList(k, lambda t: SNum(A(t), isint(t)), "args")
            I.ghost.update({"A": A, "k": k})
            return lambda: I.call_funcdef(fd, [StarArgs(sl)], {})

        def post(I, res, emit):
            g = I.ghost
            if res.outcome[0] != "ret":
                emit("no-exception", ["C17"], z3.BoolVal(False), info=f"{H.exc_kind(res.outcome[1])} at {res.outcome[2]}")
                return
            r = res.outcome[1]
            emit("returns-number", ["C17"], z3.BoolVal(is_num(r)))
            if is_num(r):
                emit("value=product-of-the-arguments", ["C01", "C03", "C04"], real_term(r) == gmode.bigprod(I, lambda t: g["A"](t), g["k"]))
        return H.run_family(prog, nm, setup, post)
    return FamilySpec(nm, HELPER_PROPS, run, functions=["math_functions.multiply"])


def fam_g_helper_list_without():
    """utilities.list_without_entry_at(entries, i) for a list of any length and any int i:
    length and every element of the result (the contract in gexec.HELPER_CONTRACTS is the case
    0 <= i < len(entries))."""
    nm = "utilities.list_without_entry_at[any length]"

    def run(prog, tier):
        from ..gmode import SList
        fd = prog.func("utilities.list_without_entry_at")

        def setup(I):
            I.ghost["inline_helper"] = fd.qualname
            k = z3.Int("k")
            I.path.assume(k >= 0)
            A = z3.Function("entry", z3.IntSort(), z3.RealSort())
            sl = SList(k, lambda t: SNum(A(t), False), "entries")
            i = z3.Int("i")
            I.ghost.update({"A": A, "k": k, "i": i})
            return lambda: I.call_funcdef(fd, [sl, SNum(i, True)], {})

        def post(I, res, emit):
            g = I.ghost
            A, k, i = g["A"], g["k"], g["i"]
            if res.outcome[0] != "ret":
                emit("no-exception", ["C17"], z3.BoolVal(False), info=f"{H.exc_kind(res.outcome[1])} at {res.outcome[2]}")
                return
            r = res.outcome[1]
            ok = isinstance(r, SList)
            emit("returns-a-list", ["C17"], z3.BoolVal(ok))
            if not ok:
                return
            oor = z3.Or(i >= k, i <= -(k + 1))
            j = z3.If(i >= 0, i, k + i)
            emit("length", ["C03", "C04", "C05"], r.length == z3.If(oor, k, k - 1))
            u = z3.Int("u!elem")
            qm(I).add_index(u, r.length)
            got = r.elem(u)
            want = z3.If(oor, A(u), z3.If(u < j, A(u), A(u + 1)))
            emit("elements", ["C03", "C04", "C05"], z3.Implies(z3.And(u >= 0, u < r.length),
                                                              real_term(got) == want if is_num(got) else z3.BoolVal(False)))
        return H.run_family(prog, nm, setup, post)
    return FamilySpec(nm, HELPER_PROPS, run, functions=["utilities.list_without_entry_at"])


def fam_g_helper_list_with_updated():
    """utilities.list_with_updated_entry_at(entries, i, new) for a list of any length and any int i
    (the contract in gexec.HELPER_CONTRACTS is the case 0 <= i < len(entries))."""
    nm = "utilities.list_with_updated_entry_at[any length]"

    def run(prog, tier):
        from ..gmode import SList
        fd = prog.func("utilities.list_with_updated_entry_at")

        def setup(I):
            I.ghost["inline_helper"] = fd.qualname
            k = z3.Int("k")
            I.path.assume(k >= 0)
            A = z3.Function("entry", z3.IntSort(), z3.RealSort())
            sl = SList(k, lambda t: SNum(A(t), False), "entries")
            i, new = z3.Int("i"), z3.Real("new")
            I.ghost.update({"A": A, "k": k, "i": i, "new": new})
            return lambda: I.call_funcdef(fd, [sl, SNum(i, True), SNum(new, False)], {})

        def post(I, res, emit):
            g = I.ghost
            A, k, i, new = g["A"], g["k"], g["i"], g["new"]
            if res.outcome[0] != "ret":
                emit("no-exception", ["C17"], z3.BoolVal(False), info=f"{H.exc_kind(res.outcome[1])} at {res.outcome[2]}")
                return
            r = res.outcome[1]
            ok = isinstance(r, SList)
            emit("returns-a-list", ["C17"], z3.BoolVal(ok))
            if not ok:
                return
            oor = z3.Or(i >= k, i <= -(k + 1))
            j = z3.If(i >= 0, i, k + i)
            emit("length", ["C08"], r.length == k)
            u = z3.Int("u!elem")
            qm(I).add_index(u, r.length)
            got = r.elem(u)
            want = z3.If(z3.And(z3.Not(oor), u == j), new, A(u))
            emit("elements", ["C08"], z3.Implies(z3.And(u >= 0, u < r.length), real_term(got) == want if is_num(got) else z3.BoolVal(False)))
        return H.run_family(prog, nm, setup, post)
    return FamilySpec(nm, HELPER_PROPS, run, functions=["utilities.list_with_updated_entry_at"])


def fam_g_helper_first_match():
    """utilities.first_match_by_predicate(entries, predicate) for a list of any length and any
    predicate: None iff no entry satisfies it, else the first index that does and its entry."""
    nm = "utilities.first_match_by_predicate[any length]"

    def run(prog, tier):
        from ..gmode import SList, IndexedItem
        from ..values import Builtin
        fd = prog.func("utilities.first_match_by_predicate")

        def setup(I):
            I.ghost["inline_helper"] = fd.qualname
            k = z3.Int("k")
            I.path.assume(k >= 0)
            P = z3.Function("P!first", z3.IntSort(), z3.BoolSort())
            I.ghost["first_match_P"] = P
            sl = SList(k, lambda t: IndexedItem(t), "entries")
            # enumerate() needs a family-less list of opaque items
            pred = Builtin("predicate", lambda a, kw: P(a[0].idx))
            I.ghost.update({"k": k, "P": P})
            return lambda: I.call_funcdef(fd, [sl, pred], {})

        def post(I, res, emit):
            P, k = I.ghost["P"], I.ghost["k"]
            if res.outcome[0] != "ret":
                emit("no-exception", ["C17"], z3.BoolVal(False), info=f"{H.exc_kind(res.outcome[1])} at {res.outcome[2]}")
                return
            r = res.outcome[1]
            s_ = z3.Int("s!post")
            qm(I).add_index(s_, k)
            if r is None:
                emit("None=>no-entry-matches", ["C08"], z3.Implies(z3.And(s_ >= 0, s_ < k), z3.Not(P(s_))))
                return
            ok = isinstance(r, tuple) and len(r) == 2 and is_num(r[0]) and isinstance(r[1], IndexedItem)
            emit("returns-index-and-entry", ["C17", "C08"], z3.BoolVal(ok))
            if not ok:
                return
            i = num_term(r[0])
            emit("index-in-range-and-matches", ["C08"], z3.And(i >= 0, i < k, P(i), r[1].idx == i))
            emit("first-match", ["C08"], z3.Implies(z3.And(s_ >= 0, s_ < i), z3.Not(P(s_))))
        return H.run_family(prog, nm, setup, post)
    return FamilySpec(nm, HELPER_PROPS, run, functions=["utilities.first_match_by_predicate"])


def fam_g_helper_partition():
    """utilities.partition_by_predicate(entries, predicate) for a list of any length and any
    predicate of the entry: the two returned lists are the hits and the misses in order
    (cnt / sigma / tau of invariants.partition_ghost) - the contract gexec.helper_partition uses."""
    nm = "utilities.partition_by_predicate[any length]"

    def run(prog, tier):
        from ..gmode import SList, IndexedItem
        from .. import invariants
        from ..values import Builtin
        fd = prog.func("utilities.partition_by_predicate")

        def setup(I):
            I.ghost["inline_helper"] = fd.qualname
            k = z3.Int("k")
            I.path.assume(k >= 0)
            g = invariants.partition_ghost(I, k)
            sl = SList(k, lambda t: IndexedItem(t), "entries")
            pred = Builtin("predicate", lambda a, kw: g["P"](a[0].idx))
            I.ghost.update({"k": k, "g": g})
            return lambda: I.call_funcdef(fd, [sl, pred], {})

        def post(I, res, emit):
            g, k = I.ghost["g"], I.ghost["k"]
            if res.outcome[0] != "ret":
                emit("no-exception", ["C17"], z3.BoolVal(False), info=f"{H.exc_kind(res.outcome[1])} at {res.outcome[2]}")
                return
            r = res.outcome[1]
            ok = isinstance(r, tuple) and len(r) == 2 and all(isinstance(x, SList) for x in r)
            emit("returns-two-lists", ["C17", "C08"], z3.BoolVal(ok))
            if not ok:
                return
            hits, misses = r
            u = z3.Int("u!post")
            qm(I).add_index(u, k)
            emit("hits-length", ["C08"], hits.length == g["cnt"](k))
            emit("misses-length", ["C08"], misses.length == k - g["cnt"](k))
            emit("hits-elements", ["C08"], z3.Implies(z3.And(u >= 0, u < hits.length), hits.elem(u).idx == g["sigma"](u)))
            emit("misses-elements", ["C08"], z3.Implies(z3.And(u >= 0, u < misses.length), misses.elem(u).idx == g["tau"](u)))
        return H.run_family(prog, nm, setup, post)
    return FamilySpec(nm, HELPER_PROPS, run, functions=["utilities.partition_by_predicate"])


_specs0 = specs


def specs(prog, tier):                                    # noqa: F811
    out = _specs0(prog, tier)
    for name in ("Add", "Multiply"):
        cls = prog.classes[name]
        out += [fam_g_at(cls), fam_g_reset(cls), fam_g_init(cls)]
    add = prog.classes["Add"]
    out += [fam_g_numeric_partial(add), fam_g_compute_numeric_partials(add)]
    mul = prog.classes["Multiply"]
    out += [fam_g_compute_numeric_partials(mul), fam_g_numeric_partial(mul)]
    out += [fam_g_helper_multiply(), fam_g_helper_list_without(), fam_g_helper_partition(), fam_g_helper_list_with_updated(), fam_g_helper_first_match()]
    return out


def fam_g_synthetic_partial(cls):
    def run(prog, tier):
        fd = cls.lookup("_synthetic_partial")

        def setup(I):
            pt = H.make_point(I)
            x = z3.Const("x", sym.Name)
            I.ghost["ambient_names"] = [x]
            slf = make_self_g(I, cls)
            I.ghost.update({"self": slf, "pt": pt, "x": x})
            return lambda: I.call_funcdef(fd, [slf, SName(x)], {})

        def post(I, res, emit):
            g = I.ghost
            slf, pt, x = g["self"], g["pt"], g["x"]
            if res.outcome[0] == "raise":
                emit("no-exception", ["C05", "C17"], z3.BoolVal(False), info=f"{H.exc_kind(res.outcome[1])} at {res.outcome[2]}")
                return
            r = res.outcome[1]
            if not isinstance(r, Obj):
                emit("returns-expression", ["C05", "C17"], z3.BoolVal(False), info=repr(r))
                return
            de, dr = spec.den(I, slf, pt), spec.den(I, r, pt)
            emit("denotes-true-partial", ["C05"], z3.Implies(de.D, z3.And(dr.D, dr.V == de.dV(x))))
            emit("mentions-no-new-variable", ["C05"],
                 gmode.skolem_subset(I, spec.vars_of(I, r), spec.vars_of(I, slf), "vars"))
        return H.run_family(prog, f"{cls.name}[any arity]._synthetic_partial", setup, post)
    return FamilySpec(f"{cls.name}[any arity]._synthetic_partial", ["C05", "C17", "C06", "C07"], run,
                      functions=[f"{cls.name}._synthetic_partial"])


_specs1 = specs


def specs(prog, tier):                                    # noqa: F811
    out = _specs1(prog, tier)
    out.append(fam_g_synthetic_partial(prog.classes["Add"]))
    out.append(fam_g_synthetic_partial(prog.classes["Multiply"]))
    return out


def make_other_g(I, cls, name="other"):
    """A second node of the same class with its own symbolic arity and children."""
    k2 = z3.Int("k_other")
    I.path.assume(k2 >= 0)
    fam = ChildFamily(I, f"{name}._inners", k2)
    o = Obj(cls, name)
    init = cls.lookup("__init__")
    o.in_init = True
    try:
        I.call_funcdef(init, [o, StarArgs(fam.slist(I))], {})
    finally:
        o.in_init = False
    o.fields["_is_fully_reduced"] = z3.Bool(f"fr[{name}]")
    o.fields["_evaluation_failed"] = z3.Bool(f"ef[{name}]")
    H.set_memo_arbitrary(I, o)
    return o, fam


def struct_eq_spec_g(I, fam_a, fam_b):
    """Same arity and pairwise structurally equal arguments in the same order."""
    from .. import structural as st
    return z3.And(fam_a.length == fam_b.length,
                  gmode.forall_const(I, fam_a.length,
                                     lambda t: st.T(I, fam_b.child(I, t)) == st.T(I, fam_a.child(I, t)), "args-equal"))


def fam_g_eq(cls):
    def run(prog, tier):
        fd = cls.lookup("__eq__")

        def setup(I):
            slf = make_self_g(I, cls)
            fa = I.ghost["family"]
            other, fb = make_other_g(I, cls)
            I.ghost.update({"fa": fa, "fb": fb})
            return lambda: I.call_funcdef(fd, [slf, other], {})

        def post(I, res, emit):
            if res.outcome[0] == "raise":
                emit("never-raises", ["C12"], z3.BoolVal(False), info=f"{H.exc_kind(res.outcome[1])} at {res.outcome[2]}")
                return
            r = res.outcome[1]
            rb = z3.BoolVal(r) if isinstance(r, bool) else r
            emit("equals=structural-equality", ["C12"], rb == struct_eq_spec_g(I, I.ghost["fa"], I.ghost["fb"]))
        return H.run_family(prog, f"{cls.name}[any arity].__eq__[same-class]", setup, post)
    return FamilySpec(f"{cls.name}[any arity].__eq__[same-class]", ["C12", "C10"], run, functions=[f"{cls.name}.__eq__"])


def fam_g_hash(cls):
    def run(prog, tier):
        fd = cls.lookup("__hash__")

        def setup(I):
            slf = make_self_g(I, cls)
            fa = I.ghost["family"]
            other, fb = make_other_g(I, cls)
            I.ghost.update({"fa": fa, "fb": fb})
            return lambda: (I.call_funcdef(fd, [slf], {}), I.call_funcdef(fd, [other], {}))

        def post(I, res, emit):
            if res.outcome[0] == "raise":
                emit("never-raises", ["C12"], z3.BoolVal(False), info=H.exc_kind(res.outcome[1]))
                return
            h1, h2 = res.outcome[1]
            emit("equal=>equal-hashes", ["C12"],
                 z3.Implies(struct_eq_spec_g(I, I.ghost["fa"], I.ghost["fb"]), num_term(h1) == num_term(h2)))
        return H.run_family(prog, f"{cls.name}[any arity].__hash__", setup, post)
    return FamilySpec(f"{cls.name}[any arity].__hash__", ["C12"], run, functions=[f"{cls.name}.__hash__"])


def fam_g_repr(cls, method):
    def run(prog, tier):
        from .structure import tokenize, parse_call
        fd = cls.lookup(method)

        def setup(I):
            slf = make_self_g(I, cls)
            I.ghost["self"] = slf
            return lambda: I.call_funcdef(fd, [slf], {})

        def post(I, res, emit):
            slf, fam = I.ghost["self"], I.ghost["family"]
            if res.outcome[0] == "raise":
                emit("never-raises", ["C13"], z3.BoolVal(False), info=H.exc_kind(res.outcome[1]))
                return
            r = res.outcome[1]
            parsed = parse_call(tokenize(str_parts(r))) if isinstance(r, (str, SStr)) else None
            if parsed is None:
                emit("prints-a-constructor-call", ["C13"], z3.BoolVal(False), info=repr(r))
                return
            name, args, kwargs = parsed
            emit("prints-own-constructor-name", ["C13"], z3.BoolVal(name == cls.name))
            # the arguments are the printed children, in order, joined by ", "
            ok = len(args) == 1 and not kwargs and isinstance(args[0], tuple) and args[0][0] == "joined" and args[0][1] == ", "
            if ok:
                sl = args[0][2]
                w = z3.Int("w!printed")
                piece = sl.elem(w)
                ch = fam.child(I, w)
                ok = sl.length.get_id() == fam.length.get_id() and isinstance(piece, SStr) and len(piece.parts) == 1 \
                    and piece.parts[0][0] == "print" and piece.parts[0][1] is ch
            emit("printed-arguments-are-the-children-in-order", ["C13"], z3.BoolVal(bool(ok)), info=repr(r))
        return H.run_family(prog, f"{cls.name}[any arity].{method}", setup, post)
    return FamilySpec(f"{cls.name}[any arity].{method}", ["C13"], run, functions=[f"{cls.name}.{method}"])


_specs2 = specs


def specs(prog, tier):                                    # noqa: F811
    out = _specs2(prog, tier)
    for name in ("Add", "Multiply"):
        cls = prog.classes[name]
        out += [fam_g_eq(cls), fam_g_hash(cls), fam_g_repr(cls, "__repr__"), fam_g_repr(cls, "__str__")]
    return out


_specs3 = specs


def specs(prog, tier):                                    # noqa: F811
    out = _specs3(prog, tier)
    for sp in out:
        sp.optional = True        # upgrades: unbounded arity where the code has the supported shapes
    return out


def fam_g_compute_synthetic_partials(cls):
    def run(prog, tier):
        from .symbolic import make_synth_accumulator
        from .. import synth
        fd = cls.lookup("_compute_synthetic_partials")

        def setup(I):
            pt = H.make_point(I)
            kname = z3.Const("kname", sym.Name)
            I.ghost["ambient_names"] = [kname]
            qm(I).add_name(kname)
            slf = make_self_g(I, cls)
            m = I.contracts.make_child(I, "m")
            acc, base = make_synth_accumulator(I, [kname])
            I.ghost.update({"self": slf, "pt": pt, "kname": kname, "acc": acc, "m": m,
                            "state0": (kname,) + tuple(base.state_for(I, kname))})
            return lambda: I.call_funcdef(fd, [slf, acc, m], {})

        def post(I, res, emit):
            g = I.ghost
            slf, pt, k, acc, m = g["self"], g["pt"], g["kname"], g["acc"], g["m"]
            if res.outcome[0] == "raise":
                emit("no-exception", ["C05", "C17"], z3.BoolVal(False), info=f"{H.exc_kind(res.outcome[1])} at {res.outcome[2]}")
                return
            (_k, absent0, old) = g["state0"]
            in_vars = sym.member(k, spec.vars_of(I, slf))
            fam = I.ghost["family"]
            qm(I).foralls.append((fam.length, lambda t: z3.Implies(
                z3.Not(sym.member(k, spec.vars_of(I, fam.child(I, t)))), spec.den(I, fam.child(I, t), pt).dV(k) == 0)))
            for ci, (cond, absent1, new) in enumerate(synth.final_views(I, acc.fields["_synthetic_partials"], k)):
                emit(f"entry-present-iff-was-present-or-variable-occurs#{ci}", ["C05"],
                     z3.Implies(cond, absent1 == z3.And(absent0, z3.Not(in_vars))))
                if new is None:
                    continue
                emit(f"accumulates-symbolically#{ci}", ["C05"],
                     z3.Implies(cond, synth.accumulate_clause(I, pt, k, absent0, old, absent1, new, slf, m)))
                vs = sym.union(sym.union(synth.old_vars(I, absent0, old), spec.vars_of(I, m)), spec.vars_of(I, slf))
                emit(f"mentions-no-new-variable#{ci}", ["C05"],
                     z3.Implies(z3.And(cond, z3.Not(absent1)), gmode.skolem_subset(I, spec.vars_of(I, new), vs, "accvars")))
        return H.run_family(prog, f"{cls.name}[any arity]._compute_synthetic_partials", setup, post)
    return FamilySpec(f"{cls.name}[any arity]._compute_synthetic_partials", ["C05", "C17", "C06", "C07"], run,
                      functions=[f"{cls.name}._compute_synthetic_partials"])


def fam_g_reducer(cls, rule):
    """A rewrite rule of an n-ary class for every arity: declines, or the result refines self."""
    from .reduce import refines_obligations, IMPORTERS
    nm = f"{cls.name}[any arity].{rule}"

    def run(prog, tier):
        fd = cls.lookup(rule)

        def setup(I):
            pt = H.make_point(I)
            I.ghost["ambient_names"] = []
            slf = make_self_g(I, cls)
            I.ghost["self"], I.ghost["pt"] = slf, pt
            return lambda: I.call_funcdef(fd, [slf], {})

        def post(I, res, emit):
            slf, pt = I.ghost["self"], I.ghost["pt"]
            if res.outcome[0] == "raise":
                emit("no-exception", ["C08", "C17"], z3.BoolVal(False), info=f"{H.exc_kind(res.outcome[1])} at {res.outcome[2]}")
                return
            r = res.outcome[1]
            if r is None:
                emit("declines", ["C08"], z3.BoolVal(True))
                return
            if not (isinstance(r, Obj) and (r.cls is None or r.cls.name in sym.CLS)):
                emit("returns-expression-or-None", ["C08", "C17"], z3.BoolVal(False), info=repr(r))
                return
            ds, dr = spec.den(I, slf, pt), spec.den(I, r, pt)
            emit("result-mentions-no-new-variable", list(IMPORTERS),
                 gmode.skolem_subset(I, spec.vars_of(I, r), spec.vars_of(I, slf), "vars"))
            goal_v = dr.V == ds.V
            if z3.is_app(dr.V) and dr.V.decl().kind() == z3.Z3_OP_DIV:
                # a quotient a / b (the divisor is non-zero wherever the result is defined): the
                # equivalent product form  a = V(self) * b  is what the nonlinear engines decide reliably
                a_, b_ = dr.V.arg(0), dr.V.arg(1)
                goal_v = z3.And(b_ != 0, a_ == ds.V * b_)
            emit("refines", list(IMPORTERS), z3.Implies(ds.D, z3.And(dr.D, goal_v)))
        return H.run_family(prog, nm, setup, post, force_contract=("_normalize",) if rule == "_normalize_fully_reduced" else ())
    return FamilySpec(nm, list(IMPORTERS) + ["C17"], run, functions=[f"{cls.name}.{rule}"], optional=True)


def fam_g_take_reduction_step(cls):
    """The step driver of an n-ary class for every arity: the result refines self; the flag is
    only set when every operand carries it and every rule declined."""
    from .reduce import IMPORTERS, reducers_of
    nm = f"{cls.name}[any arity]._take_reduction_step"

    def run(prog, tier):
        fd = cls.lookup("_take_reduction_step")

        def setup(I):
            pt = H.make_point(I)
            I.ghost["ambient_names"] = []
            slf = make_self_g(I, cls)
            I.ghost["self"], I.ghost["pt"] = slf, pt
            return lambda: I.call_funcdef(fd, [slf], {})

        def post(I, res, emit):
            slf, pt = I.ghost["self"], I.ghost["pt"]
            fam = I.ghost["family"]
            if res.outcome[0] == "raise":
                emit("no-exception", ["C08", "C17"], z3.BoolVal(False), info=f"{H.exc_kind(res.outcome[1])} at {res.outcome[2]}")
                return
            r = res.outcome[1]
            if not (isinstance(r, Obj) and (r.cls is None or r.cls.name in sym.CLS)):
                emit("returns-expression", ["C08", "C17"], z3.BoolVal(False), info=repr(r))
                return
            ds, dr = spec.den(I, slf, pt), spec.den(I, r, pt)
            emit("result-mentions-no-new-variable", list(IMPORTERS),
                 gmode.skolem_subset(I, spec.vars_of(I, r), spec.vars_of(I, slf), "vars"))
            emit("step-refines", list(IMPORTERS), z3.Implies(ds.D, z3.And(dr.D, dr.V == ds.V)))
            if slf.fields.get("_is_fully_reduced") is True:
                declined = {c[0] for c in I.call_log if len(c) == 3 and c[2] == "declined"}
                fired = [c for c in I.call_log if len(c) == 3 and c[2] == "fired"]
                emit("flag-set=>no-rule-applies", ["C09", "C08"], z3.BoolVal((not fired) and set(reducers_of(cls)) <= declined),
                     info=f"declined={sorted(declined)} fired={fired}")
                emit("flag-set=>children-flagged", ["C09"], gmode.forall_const(I, fam.length, lambda t: fam.frF(t), "children-flagged"))
        return H.run_family(prog, nm, setup, post, force_contract=("_reduce_*", "_consolidate_expression_lacking_variables"))
    return FamilySpec(nm, list(IMPORTERS) + ["C17"], run, optional=True,
                      functions=[f"{cls.name}._take_reduction_step", f"{cls.name}._rebuild", f"{cls.name}._reducers"])


G_REDUCERS = [("Multiply", "_reduce_product_when_multiplying_by_zero"), ("Multiply", "_reduce_product_by_eliminating_ones"),
              ("Add", "_reduce_sum_by_eliminating_zeros"),
              ("Multiply", "_reduce_product_by_consolidating_constants"), ("Add", "_reduce_sum_by_consolidating_constants"),
              ("Multiply", "_reduce_product_by_eliminating_negations"),
              ("Add", "_normalize_fully_reduced"), ("Multiply", "_normalize_fully_reduced"),
              ("Add", "_reduce_by_flattening_nested_sums"), ("Multiply", "_reduce_by_flattening_nested_products")]

_specs4 = specs


def specs(prog, tier):                                    # noqa: F811
    out = _specs4(prog, tier)
    sp = fam_g_compute_synthetic_partials(prog.classes["Add"])
    sp.optional = True
    out.append(sp)
    sp2 = fam_g_compute_synthetic_partials(prog.classes["Multiply"])
    sp2.optional = True
    out.append(sp2)
    out += [fam_g_take_reduction_step(prog.classes["Add"]), fam_g_take_reduction_step(prog.classes["Multiply"])]
    for cname, rule in G_REDUCERS:
        if prog.classes[cname].lookup(rule) is not None:
            out.append(fam_g_reducer(prog.classes[cname], rule))
    return out
