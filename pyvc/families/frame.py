"""C10 obligations from the AST frame analysis (pyvc/frames.py); the executor's heap-log
cross-check is emitted by harness.run_family on every explored path of every family."""
from __future__ import annotations
import z3
from .. import harness as H, frames
from ..engine import FamilySpec


def fam_frames():
    def run(prog, tier):
        fam = H.Family("frame-analysis")
        sites = frames.analyse(prog)
        for i, s in enumerate(sites):
            ob = H.Obl(f"{s.name()}@{i}", ["C10"] + (["C09"] if s.rule.startswith(("F4", "F5")) else []), [], z3.BoolVal(bool(s.ok)),
                       kind="frame", info=f"{s.text} -- {s.why}")
            fam.obls.append(ob)
        fam.paths = len(sites)
        fam.extra = {"sites": len(sites), "by_rule": {}}
        for s in sites:
            fam.extra["by_rule"][s.rule] = fam.extra["by_rule"].get(s.rule, 0) + 1
        return fam
    return FamilySpec("frame-analysis", ["C10", "C09"], run, functions=["<every function of the package>"])


def specs(prog, tier):
    return [fam_frames()]
