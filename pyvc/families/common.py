"""Shared helpers for the obligation families."""
from __future__ import annotations
import z3
from .. import harness as H, spec, sym
from ..values import *
from ..engine import FamilySpec

NARY = ("Add", "Multiply")


import ast as _ast
import os

_ARITY_CACHE = {}


def _int_consts(prog):
    """Module-level and class-level `NAME = <int>` definitions of the whole program (a length may
    be compared against a named constant)."""
    key = ("consts", id(prog))
    if key not in _ARITY_CACHE:
        out = {}
        for mod in prog.modules.values():
            for n in _ast.walk(mod.tree):
                tgt, val = None, None
                if isinstance(n, _ast.Assign) and len(n.targets) == 1 and isinstance(n.targets[0], _ast.Name):
                    tgt, val = n.targets[0].id, n.value
                elif isinstance(n, _ast.AnnAssign) and isinstance(n.target, _ast.Name) and n.value is not None:
                    tgt, val = n.target.id, n.value
                if tgt and isinstance(val, _ast.Constant) and isinstance(val.value, int) and not isinstance(val.value, bool):
                    out.setdefault(tgt, set()).add(abs(val.value))
        _ARITY_CACHE[key] = out
    return _ARITY_CACHE[key]


def _threshold_of(tree, consts=None):
    consts = consts or {}
    cmax = 0
    # locals that hold a length: assigned from an expression that calls len()
    lengthy_names = set()
    for n in _ast.walk(tree):
        if isinstance(n, (_ast.Assign, _ast.AnnAssign, _ast.AugAssign)) and getattr(n, "value", None) is not None \
                and any(isinstance(c, _ast.Call) and isinstance(c.func, _ast.Name) and c.func.id == "len" for c in _ast.walk(n.value)):
            for t in (n.targets if isinstance(n, _ast.Assign) else [n.target]):
                if isinstance(t, _ast.Name):
                    lengthy_names.add(t.id)

    def int_values(x):
        if isinstance(x, _ast.Constant) and isinstance(x.value, int) and not isinstance(x.value, bool):
            return {abs(x.value)}
        if isinstance(x, _ast.UnaryOp) and isinstance(x.operand, _ast.Constant) and isinstance(x.operand.value, int):
            return {abs(x.operand.value)}
        if isinstance(x, _ast.Name) and x.id in consts and x.id not in lengthy_names:
            return consts[x.id]
        if isinstance(x, _ast.Attribute) and x.attr in consts:
            return consts[x.attr]
        if isinstance(x, _ast.BinOp):
            a, b = int_values(x.left), int_values(x.right)
            return {u + v for u in (a or {0}) for v in (b or {0})} if (a or b) else set()
        return set()

    def lengthy(x):
        for c in _ast.walk(x):
            if isinstance(c, _ast.Call) and isinstance(c.func, _ast.Name) and c.func.id == "len":
                return True
            if isinstance(c, _ast.Name) and (c.id in lengthy_names or any(t in c.id.lower() for t in ("count", "length", "arity", "size"))):
                return True
        return False
    for n in _ast.walk(tree):
        if isinstance(n, _ast.Compare):
            sides = [n.left] + list(n.comparators)
            if any(lengthy(x) for x in sides):
                for x in sides:
                    for v in int_values(x):
                        if v < 50:
                            cmax = max(cmax, v)
        if isinstance(n, _ast.Call) and isinstance(n.func, _ast.Name) and n.func.id == "range":
            for x in n.args:
                for c in _ast.walk(x):
                    if isinstance(c, _ast.Constant) and isinstance(c.value, int) and not isinstance(c.value, bool) and abs(c.value) < 50:
                        cmax = max(cmax, abs(c.value))
    return cmax


CORE_METHODS = ("__init__", "_rebuild", "_evaluate", "_reset_evaluation_cache", "_value_formula", "_verify_domain_constraints")


def method_threshold(prog, cls, method):
    """Arity threshold relevant for one method of an n-ary class: the method itself, the core
    methods every obligation runs through, the shared helper modules; the step driver also
    depends on every rule of the class."""
    key = (id(prog), cls.name, method)
    if key in _ARITY_CACHE:
        return _ARITY_CACHE[key]
    cmax = 0
    names = set(CORE_METHODS) | {method}
    if method in ("_take_reduction_step", "_normalize_fully_reduced", "_normalize", "_fully_reduce"):
        names |= {m for c in cls.mro for m in c.methods if m.startswith("_reduce_")}
    if method in ("at",):
        names |= {"at"}
    if method in ("__repr__", "__str__"):
        names |= {"__repr__", "__str__", "_to_string"}
    consts = _int_consts(prog)
    # helper methods of the class that these methods call (transitively)
    work = list(names)
    while work:
        fd = cls.lookup(work.pop())
        if fd is None:
            continue
        for n in _ast.walk(fd.node):
            if isinstance(n, _ast.Attribute) and isinstance(n.value, _ast.Name) and n.value.id in ("self", "cls") \
                    and n.attr not in names and cls.lookup(n.attr) is not None and not n.attr.startswith("_reduce_"):
                names.add(n.attr)
                work.append(n.attr)
    for m in names:
        fd = cls.lookup(m)
        if fd is not None:
            cmax = max(cmax, _threshold_of(fd.node, consts))
    for mod in prog.modules.values():
        if mod.short in ("utilities", "math_functions", "accumulators") or (mod.short == "expression" and "base_expression" in mod.name):
            for fd in mod.funcs.values():
                cmax = max(cmax, _threshold_of(fd.node, consts))
        if mod.short in (cls.name.lower(),):
            for fd in mod.funcs.values():
                cmax = max(cmax, _threshold_of(fd.node, consts))
    _ARITY_CACHE[key] = cmax
    return cmax


def arity_thresholds(prog):
    """Largest integer constant that the n-ary code compares a length / count against: a proof
    per arity 0..K only covers the code if K exceeds every such threshold."""
    key = id(prog)
    if key in _ARITY_CACHE:
        return _ARITY_CACHE[key]
    cmax = 0
    mods = [m for m in prog.modules.values() if m.short in ("add", "multiply", "n_ary_expression", "utilities", "expression", "math_functions", "accumulators")]
    for m in mods:
        cmax = max(cmax, _threshold_of(m.tree, _int_consts(prog)))
    for m in []:
        for n in _ast.walk(m.tree):
            if isinstance(n, _ast.Compare):
                sides = [n.left] + list(n.comparators)
                lengthy = any((isinstance(x, _ast.Call) and isinstance(x.func, _ast.Name) and x.func.id == "len") or
                              (isinstance(x, _ast.Name) and any(t in x.id.lower() for t in ("count", "length", "arity", "size")))
                              for x in sides)
                if lengthy:
                    for x in sides:
                        if isinstance(x, _ast.Constant) and isinstance(x.value, int) and not isinstance(x.value, bool):
                            cmax = max(cmax, abs(x.value))
            if isinstance(n, _ast.Call) and isinstance(n.func, _ast.Name) and n.func.id == "range":
                for x in n.args:
                    for c in _ast.walk(x):
                        if isinstance(c, _ast.Constant) and isinstance(c.value, int) and not isinstance(c.value, bool) and abs(c.value) < 50:
                            cmax = max(cmax, abs(c.value))
    _ARITY_CACHE[key] = cmax
    return cmax


def arities(tier, prog=None):
    k = 3 if tier == "quick" else 4
    if os.environ.get("PYVC_K"):
        k = int(os.environ["PYVC_K"])          # (experiments only; the registered commands do not set it)
    if prog is not None:
        # the code branches on an arity threshold beyond K: extend K past it (capped)
        k = max(k, min(arity_thresholds(prog) + 1, 7))
    return list(range(k + 1))


def class_variants(prog, tier):
    """(class, arity-or-None, label, bounded-note) for the 15 concrete classes."""
    out = []
    for cls in prog.concrete_expression_classes():
        if cls.name in NARY:
            for k in arities(tier, prog):
                out.append((cls, k, f"{cls.name}[k={k}]", f"arity={k}"))
        else:
            out.append((cls, None, cls.name, None))
    return out


def eval_post(I, res, emit, slf, pt, value_of=None, props_value=("C01",), who="", extra=()):
    """Post-condition of an evaluation-like call: returns r => D and S and r = value;
    DomainError => not D; CoordinateMissing => not S; nothing else escapes."""
    d = spec.den(I, slf, pt)
    S = spec.supplies(I, slf, pt)
    memo_coherent_at_exit(I, emit, slf, pt)
    if res.outcome[0] == "ret":
        r = res.outcome[1]
        if not is_num(r):
            emit("returns-number", ["C17"] + list(props_value), z3.BoolVal(False), info=repr(r))
            return
        emit("returns=>D", ["C02", "C07"] if who else ["C02"], d.D)
        if not who:
            emit("returns=>S", ["C14"], S)      # evaluation never returns a number without the coordinates
        want = d.V if value_of is None else value_of(d)
        emit("value", list(props_value), real_term(r) == want, extra=list(extra))
    else:
        k = H.exc_kind(res.outcome[1])
        if k == "DomainError":
            emit("DomainError=>notD", ["C02", "C07"] if who else ["C02"], z3.Not(d.D))
        elif k == "CoordinateMissing":
            emit("CoordinateMissing=>notS", ["C14"], z3.Not(S))
        else:
            emit("no-other-exception", ["C17"], z3.BoolVal(False), info=f"{k} raised at {res.outcome[2]}")


def memo_coherent_at_exit(I, emit, slf, pt):
    """C09 P2: whatever the outcome, the memo of self is left None or (D, S, V(self,p))."""
    from ..interp import LazyOpt
    if not (isinstance(slf, Obj) and "_value" in slf.fields):
        return
    v = slf.fields["_value"]
    d = spec.den(I, slf, pt)
    if isinstance(v, LazyOpt) or v is None:
        return                      # untouched coherent pre-state, or None
    if is_num(v):
        emit("memo-coherent-at-exit", ["C09"], z3.And(d.D, spec.supplies(I, slf, pt), real_term(v) == d.V))
    else:
        emit("memo-coherent-at-exit", ["C09"], z3.BoolVal(False), info=repr(v))
