"""Shared helpers for the obligation families."""
from __future__ import annotations
import z3
from .. import harness as H, spec, sym
from ..values import *
from ..engine import FamilySpec

NARY = ("Add", "Multiply")


def arities(tier):
    return [0, 1, 2, 3] if tier == "quick" else [0, 1, 2, 3, 4]


def class_variants(prog, tier):
    """(class, arity-or-None, label, bounded-note) for the 15 concrete classes."""
    out = []
    for cls in prog.concrete_expression_classes():
        if cls.name in NARY:
            for k in arities(tier):
                out.append((cls, k, f"{cls.name}[k={k}]", f"arity={k}"))
        else:
            out.append((cls, None, cls.name, None))
    return out


def eval_post(I, res, emit, slf, pt, value_of=None, props_value=("C01",), who="", extra=()):
    """Post-condition of an evaluation-like call: returns r => D and S and r = value;
    DomainError => not D; CoordinateMissing => not S; nothing else escapes."""
    d = spec.den(I, slf, pt)
    S = spec.supplies(I, slf, pt)
    memo_coherent_at_exit(I, emit, slf, pt)
    if res.outcome[0] == "ret":
        r = res.outcome[1]
        if not is_num(r):
            emit("returns-number", ["C17"] + list(props_value), z3.BoolVal(False), info=repr(r))
            return
        emit("returns=>D", ["C02", "C07"] if who else ["C02"], d.D)
        if not who:
            emit("returns=>S", ["C14"], S)      # evaluation never returns a number without the coordinates
        want = d.V if value_of is None else value_of(d)
        emit("value", list(props_value), real_term(r) == want, extra=list(extra))
    else:
        k = H.exc_kind(res.outcome[1])
        if k == "DomainError":
            emit("DomainError=>notD", ["C02", "C07"] if who else ["C02"], z3.Not(d.D))
        elif k == "CoordinateMissing":
            emit("CoordinateMissing=>notS", ["C14"], z3.Not(S))
        else:
            emit("no-other-exception", ["C17"], z3.BoolVal(False), info=f"{k} raised at {res.outcome[2]}")


def memo_coherent_at_exit(I, emit, slf, pt):
    """C09 P2: whatever the outcome, the memo of self is left None or (D, S, V(self,p))."""
    from ..interp import LazyOpt
    if not (isinstance(slf, Obj) and "_value" in slf.fields):
        return
    v = slf.fields["_value"]
    d = spec.den(I, slf, pt)
    if isinstance(v, LazyOpt) or v is None:
        return                      # untouched coherent pre-state, or None
    if is_num(v):
        emit("memo-coherent-at-exit", ["C09"], z3.And(d.D, spec.supplies(I, slf, pt), real_term(v) == d.V))
    else:
        emit("memo-coherent-at-exit", ["C09"], z3.BoolVal(False), info=repr(v))
