"""C08: every rewrite rule, the step drivers, constant folding, the normal-form passes and
_fully_reduce / _normalize refine their input:  D(self,p) => D(result,p) and V equal."""
from __future__ import annotations
import ast, itertools
import z3
from .. import harness as H, spec, sym
from ..values import *
from ..interp import Raise, PathAbort, Unsupported, Env, _Return
from ..engine import FamilySpec
from .common import *

REDUCE_PREFIX = "_reduce_"


def reducers_of(cls):
    names = []
    for c in cls.mro:
        for m in c.methods:
            if m.startswith(REDUCE_PREFIX) and m not in names:
                names.append(m)
    return names


def collect_leaves(o, acc=None, seen=None):
    """Unknown-class leaves and integer parameters reachable from a known-class object."""
    acc = acc if acc is not None else {"leaves": [], "ints": [], "reals": []}
    seen = seen if seen is not None else set()
    if id(o) in seen:
        return acc
    seen.add(id(o))
    if o.cls is None:
        acc["leaves"].append(o)
        return acc
    c = o.cls.name
    if c in ("NthPower", "NthRoot"):
        p = o.fields["_parameter"]
        if isinstance(p, SNum) and not z3.is_int_value(p.term):
            acc["ints"].append((f"{o.name}.n", p.term))
    if c in ("Constant", "Variable"):
        return acc
    for ch in spec.children(o):
        collect_leaves(ch, acc, seen)
    return acc


def sign_cases(I, leaf, pt):
    v = spec.den(I, leaf, pt).V
    return [(f"{leaf.name}>0", v > 0), (f"{leaf.name}=0", v == 0), (f"{leaf.name}<0", v < 0)]


def parity_cases(name, n):
    return [(f"{name}=1", n == 1), (f"{name} even", z3.And(n >= 2, n % 2 == 0)), (f"{name} odd>=3", z3.And(n >= 3, n % 2 == 1))]


def case_product(I, slf, result, pt, max_cases=81):
    """Generator-side case split (DESIGN §3.2): signs of the holes, parity of the integer
    parameters.  Returns [(label, [conds])]."""
    info = collect_leaves(slf)
    if isinstance(result, Obj):
        collect_leaves(result, info, set())
    dims = []
    seen = set()
    for name, n in info["ints"]:
        if n.get_id() in seen:
            continue
        seen.add(n.get_id())
        dims.append(parity_cases(name, n))
    leaves = []
    for l in info["leaves"]:
        if id(l) not in seen:
            seen.add(id(l))
            leaves.append(l)
    sdims = [sign_cases(I, l, pt) for l in leaves]
    total = 1
    for d in dims + sdims:
        total *= len(d)
    if total > max_cases:
        total = 1
        for d in dims:
            total *= len(d)
        sdims = []
        if total > max_cases:
            dims = []
    alld = dims + sdims
    if not alld:
        return [("", [])]
    out = []
    for combo in itertools.product(*alld):
        out.append((";".join(c[0] for c in combo), [c[1] for c in combo]))
    return out


def refines_obligations(I, res, emit, slf, r, pt, props=("C08",), split=True, clause="refines"):
    ds = spec.den(I, slf, pt)
    dr = spec.den(I, r, pt)
    goal = z3.Implies(ds.D, z3.And(dr.D, dr.V == ds.V))
    emit("result-mentions-no-new-variable", list(props) + ["C05"], sym.subset(spec.vars_of(I, r), spec.vars_of(I, slf)))
    cases = case_product(I, slf, r, pt) if split else [("", [])]
    for label, conds in cases:
        nm = clause if not label else f"{clause}[{label}]"
        emit(nm, list(props), goal, extra=conds, info=label or None)


def fam_reducer(cls, rule, arity, label, bounded):
    def run(prog, tier):
        fd = cls.lookup(rule)

        def setup(I):
            pt = H.make_point(I)
            I.ghost["ambient_names"] = []
            slf = H.make_self(I, cls, arity)
            I.ghost["self"], I.ghost["pt"] = slf, pt
            I.ghost["replay"] = {"kind": "reducer", "root": slf, "pt": pt, "x": z3.Const("x", sym.Name),
                                 "extra": {"rule": rule}}
            return lambda: I.call_funcdef(fd, [slf], {})

        def post(I, res, emit):
            slf, pt = I.ghost["self"], I.ghost["pt"]
            if res.outcome[0] == "raise":
                emit("no-exception", ["C08", "C17"], z3.BoolVal(False),
                     info=f"{H.exc_kind(res.outcome[1])} at {res.outcome[2]}")
                return
            r = res.outcome[1]
            if r is None:
                emit("declines", ["C08"], z3.BoolVal(True))
                return
            if not (isinstance(r, Obj) and (r.cls is None or r.cls.name in sym.CLS)):
                emit("returns-expression-or-None", ["C08", "C17"], z3.BoolVal(False), info=repr(r))
                return
            refines_obligations(I, res, emit, slf, r, pt)
        return H.run_family(prog, f"{label}.{rule}", setup, post, bounded=bounded)
    return FamilySpec(f"{label}.{rule}", ["C08", "C05", "C17"], run, functions=[f"{cls.name}.{rule}"])


def specs(prog, tier):
    out = []
    for cls, k, label, bnd in class_variants(prog, tier):
        for rule in reducers_of(cls):
            out.append(fam_reducer(cls, rule, k, label, bnd))
    return out
