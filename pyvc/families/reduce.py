"""C08: every rewrite rule, the step drivers, constant folding, the normal-form passes and
_fully_reduce / _normalize refine their input:  D(self,p) => D(result,p) and V equal."""
from __future__ import annotations
import ast, itertools
import z3
from .. import harness as H, spec, sym
from ..values import *
from ..interp import Raise, PathAbort, Unsupported, Env, _Return
from ..engine import FamilySpec
from .common import *

REDUCE_PREFIX = "_reduce_"


def reducers_of(cls):
    names = []
    for c in cls.mro:
        for m in c.methods:
            if m.startswith(REDUCE_PREFIX) and m not in names:
                names.append(m)
    return names


def collect_leaves(o, acc=None, seen=None):
    """Unknown-class leaves and integer parameters reachable from a known-class object."""
    acc = acc if acc is not None else {"leaves": [], "ints": [], "reals": []}
    seen = seen if seen is not None else set()
    if id(o) in seen:
        return acc
    seen.add(id(o))
    if o.cls is None:
        acc["leaves"].append(o)
        return acc
    c = o.cls.name
    if c in ("NthPower", "NthRoot"):
        p = o.fields["_parameter"]
        if isinstance(p, SNum) and not z3.is_int_value(p.term):
            acc["ints"].append((f"{o.name}.n", p.term))
    if c in ("Constant", "Variable"):
        return acc
    for ch in spec.children(o):
        collect_leaves(ch, acc, seen)
    return acc


def sign_cases(I, leaf, pt):
    v = spec.den(I, leaf, pt).V
    return [(f"{leaf.name}>0", v > 0), (f"{leaf.name}=0", v == 0), (f"{leaf.name}<0", v < 0)]


def parity_cases(name, n):
    return [(f"{name}=1", n == 1), (f"{name} even", z3.And(n >= 2, n % 2 == 0)), (f"{name} odd>=3", z3.And(n >= 3, n % 2 == 1))]


def case_product(I, slf, result, pt, max_cases=81):
    """Generator-side case split (DESIGN §3.2): signs of the holes, parity of the integer
    parameters.  Returns [(label, [conds])]."""
    info = collect_leaves(slf)
    if isinstance(result, Obj):
        own_ints = list(info["ints"])
        collect_leaves(result, info, set())
        info["ints"] = own_ints        # parameters of the result are functions of the input's
    dims = []
    seen = set()
    for name, n in info["ints"]:
        if n.get_id() in seen:
            continue
        seen.add(n.get_id())
        dims.append(parity_cases(name, n))
    leaves = []
    for l in info["leaves"]:
        if id(l) not in seen:
            seen.add(id(l))
            leaves.append(l)
    sdims = [sign_cases(I, l, pt) for l in leaves]
    total = 1
    for d in dims + sdims:
        total *= len(d)
    if total > max_cases:
        total = 1
        for d in dims:
            total *= len(d)
        sdims = []
        if total > max_cases:
            dims = []
    alld = dims + sdims
    if not alld:
        return [("", [])]
    out = []
    for combo in itertools.product(*alld):
        out.append((";".join(c[0] for c in combo), [c[1] for c in combo]))
    return out


IMPORTERS = ("C08", "C05", "C06", "C07", "C09")     # properties that rest on Refines of simplification


def refines_obligations(I, res, emit, slf, r, pt, props=IMPORTERS, split=True, clause="refines"):
    ds = spec.den(I, slf, pt)
    dr = spec.den(I, r, pt)
    goal = z3.Implies(ds.D, z3.And(dr.D, dr.V == ds.V))
    emit("result-mentions-no-new-variable", list(props), sym.subset(spec.vars_of(I, r), spec.vars_of(I, slf)))
    cases = case_product(I, slf, r, pt) if split else None
    emit(clause, list(props), goal, cases=cases)


def fam_reducer(cls, rule, arity, label, bounded):
    def run(prog, tier):
        fd = cls.lookup(rule)

        def setup(I):
            pt = H.make_point(I)
            I.ghost["ambient_names"] = []
            slf = H.make_self(I, cls, arity)
            I.ghost["self"], I.ghost["pt"] = slf, pt
            I.ghost["replay"] = {"kind": "reducer", "root": slf, "pt": pt, "x": z3.Const("x", sym.Name),
                                 "extra": {"rule": rule}}
            return lambda: I.call_funcdef(fd, [slf], {})

        def post(I, res, emit):
            slf, pt = I.ghost["self"], I.ghost["pt"]
            if res.outcome[0] == "raise":
                emit("no-exception", ["C08", "C17"], z3.BoolVal(False),
                     info=f"{H.exc_kind(res.outcome[1])} at {res.outcome[2]}")
                return
            r = res.outcome[1]
            if r is None:
                emit("declines", ["C08"], z3.BoolVal(True))
                return
            if not (isinstance(r, Obj) and (r.cls is None or r.cls.name in sym.CLS)):
                emit("returns-expression-or-None", ["C08", "C17"], z3.BoolVal(False), info=repr(r))
                return
            refines_obligations(I, res, emit, slf, r, pt)
        return H.run_family(prog, f"{label}.{rule}", setup, post, bounded=bounded)
    return FamilySpec(f"{label}.{rule}", list(IMPORTERS) + ["C17"], run, functions=[f"{cls.name}.{rule}"])


def specs(prog, tier):
    out = []
    for cls, k, label, bnd in class_variants(prog, tier):
        for rule in reducers_of(cls):
            out.append(fam_reducer(cls, rule, k, label, bnd))
    return out


# ---------------------------------------------------------------------------- drivers

def result_refines(I, res, emit, slf, pt, what, split=False):
    if res.outcome[0] == "raise":
        emit("no-exception", ["C08", "C17"], z3.BoolVal(False), info=f"{H.exc_kind(res.outcome[1])} at {res.outcome[2]}")
        return None
    r = res.outcome[1]
    if not isinstance(r, Obj) or not (r.cls is None or r.cls.name in sym.CLS):
        emit("returns-expression", ["C08", "C17"], z3.BoolVal(False), info=repr(r))
        return None
    refines_obligations(I, res, emit, slf, r, pt, split=split, clause=what)
    return r


def fam_take_reduction_step(cls, arity, label, bounded):
    def run(prog, tier):
        fd = cls.lookup("_take_reduction_step")

        def setup(I):
            pt = H.make_point(I)
            I.ghost["ambient_names"] = []
            slf = H.make_self(I, cls, arity)
            I.ghost["self"], I.ghost["pt"] = slf, pt
            I.ghost["replay"] = {"kind": "method_refines", "root": slf, "pt": pt, "x": z3.Const("x", sym.Name),
                                 "extra": {"rule": "_take_reduction_step"}}
            return lambda: I.call_funcdef(fd, [slf], {})

        def post(I, res, emit):
            slf, pt = I.ghost["self"], I.ghost["pt"]
            r = result_refines(I, res, emit, slf, pt, "step-refines")
            # C09 P4: the flag is only ever set on a rule-free node
            fl = slf.fields.get("_is_fully_reduced")
            if fl is True:
                declined = {c[0] for c in I.call_log if len(c) == 3 and c[2] == "declined"}
                fired = [c for c in I.call_log if len(c) == 3 and c[2] == "fired"]
                rules = set(reducers_of(cls))
                ok = (not fired) and rules <= declined
                if cls.name not in ("Constant", "Variable"):
                    emit("flag-set=>no-rule-applies", ["C09", "C08"], z3.BoolVal(bool(ok)),
                         info=f"declined={sorted(declined)} fired={fired}")
                    kids = spec.children(slf)
                    emit("flag-set=>children-flagged", ["C09"],
                         sym.conj([k.ghost["fully_reduced"] if k.cls is None or k.kind == "child" else z3.BoolVal(True) for k in kids]))
        return H.run_family(prog, f"{label}._take_reduction_step", setup, post, bounded=bounded,
                            force_contract=("_reduce_*", "_consolidate_expression_lacking_variables"))
    return FamilySpec(f"{label}._take_reduction_step", list(IMPORTERS) + ["C17"], run,
                      functions=[f"{cls.name}._take_reduction_step", f"{cls.name}._rebuild", f"{cls.name}._reducers"])


def fam_consolidate(cls, arity, label, bounded):
    def run(prog, tier):
        fd = prog.classes["Expression"].methods["_consolidate_expression_lacking_variables"]

        def setup(I):
            pt = H.make_point(I)
            I.ghost["ambient_names"] = []
            slf = H.make_self(I, cls, arity)
            I.ghost["self"], I.ghost["pt"] = slf, pt
            I.ghost["ef0"] = slf.fields["_evaluation_failed"]
            I.ghost["replay"] = {"kind": "method_refines", "root": slf, "pt": pt, "x": z3.Const("x", sym.Name),
                                 "extra": {"rule": "_consolidate_expression_lacking_variables"}}
            return lambda: I.call_funcdef(fd, [slf], {})

        def post(I, res, emit):
            slf, pt = I.ghost["self"], I.ghost["pt"]
            if res.outcome[0] == "raise":
                emit("no-exception", ["C08", "C17"], z3.BoolVal(False), info=f"{H.exc_kind(res.outcome[1])} at {res.outcome[2]}")
                return
            r = res.outcome[1]
            d = spec.den(I, slf, pt)
            if r is None:
                emit("declines", ["C08"], z3.BoolVal(True))
                # C09 P4: the failure flag is stored only for a variable-free expression
                # that is undefined (at every point)
                ef = slf.fields["_evaluation_failed"]
                if ef is True:
                    emit("failure-flag=>variable-free-and-undefined", ["C09"],
                         z3.And(spec.vars_of(I, slf) == sym.empty_set(), z3.Not(d.D)))
                return
            if not (isinstance(r, Obj) and r.cls is not None and r.cls.name == "Constant"):
                emit("returns-Constant-or-None", ["C08"], z3.BoolVal(False), info=repr(r))
                return
            emit("folded=>variable-free", list(IMPORTERS), spec.vars_of(I, slf) == sym.empty_set())
            emit("folded=>defined-with-that-value", list(IMPORTERS), z3.And(d.D, d.V == real_term(r.fields["value"])))
        return H.run_family(prog, f"{label}._consolidate_expression_lacking_variables", setup, post, bounded=bounded,
                            force_contract=("at",))
    return FamilySpec(f"{label}._consolidate_expression_lacking_variables", list(IMPORTERS) + ["C17", "C14"], run,
                      functions=["Expression._consolidate_expression_lacking_variables"])


def fam_normalize_fully_reduced(cls, arity, label, bounded):
    def run(prog, tier):
        fd = cls.lookup("_normalize_fully_reduced")

        def setup(I):
            pt = H.make_point(I)
            I.ghost["ambient_names"] = []
            slf = H.make_self(I, cls, arity)
            I.ghost["self"], I.ghost["pt"] = slf, pt
            I.ghost["replay"] = {"kind": "method_refines", "root": slf, "pt": pt, "x": z3.Const("x", sym.Name),
                                 "extra": {"rule": "_normalize_fully_reduced"}}
            return lambda: I.call_funcdef(fd, [slf], {})

        def post(I, res, emit):
            slf, pt = I.ghost["self"], I.ghost["pt"]
            result_refines(I, res, emit, slf, pt, "normal-form-refines", split=True)
        return H.run_family(prog, f"{label}._normalize_fully_reduced", setup, post, bounded=bounded,
                            force_contract=("_normalize",))
    return FamilySpec(f"{label}._normalize_fully_reduced", list(IMPORTERS) + ["C17"], run,
                      functions=[f"{cls.name}._normalize_fully_reduced"])


def fam_normalize():
    def run(prog, tier):
        def setup(I):
            pt = H.make_point(I)
            I.ghost["ambient_names"] = []
            e = I.contracts.make_child(I, "e")
            I.ghost["e"], I.ghost["pt"] = e, pt
            fd = prog.classes["Expression"].methods["_normalize"]
            return lambda: I.call_funcdef(fd, [e], {})

        def post(I, res, emit):
            result_refines(I, res, emit, I.ghost["e"], I.ghost["pt"], "normalize-refines")
        return H.run_family(prog, "Expression._normalize", setup, post,
                            force_contract=("_fully_reduce", "_normalize_fully_reduced"))
    return FamilySpec("Expression._normalize", list(IMPORTERS) + ["C17"], run, functions=["Expression._normalize"])


def fam_fully_reduce(part):
    """Expression._fully_reduce, loop invariant `expression refines self` (sidecar, loop
    ordinal 0): initially / preserved by one iteration (also on its early-return exit) /
    gives the post-condition on the budget-exhausted exit."""
    def run(prog, tier):
        fd = prog.classes["Expression"].methods["_fully_reduce"]
        body = [s for s in fd.node.body if not (isinstance(s, ast.Expr) and isinstance(s.value, ast.Constant))]
        loops = [i for i, s in enumerate(body) if isinstance(s, ast.For)]
        if len(loops) != 1:
            fam = H.Family(f"Expression._fully_reduce[{part}]")
            fam.error = "unsupported: expected exactly one loop in _fully_reduce"
            return fam
        li = loops[0]
        loop = body[li]

        def setup(I):
            pt = H.make_point(I)
            I.ghost["ambient_names"] = []
            e = I.contracts.make_child(I, "e")
            I.ghost["e"], I.ghost["pt"] = e, pt
            env = Env(fd.module, None, fd, 1)
            env.vars["self"] = e
            I.frames.append(env)

            def arbitrary_state():
                x0 = I.contracts.make_child(I, "expression0")
                I.contracts.assume_refines(I, e, x0)
                env.vars["expression"] = x0
                env.vars[loop.target.id] = SNum(z3.Int("iteration"), True)

            def thunk():
                try:
                    if part == "init":
                        I.exec_block(body[:li], env)
                        return ("inv", env.vars.get("expression"))
                    if part == "step":
                        arbitrary_state()
                        I.exec_block(loop.body, env)
                        return ("inv", env.vars.get("expression"))
                    arbitrary_state()
                    I.exec_block(body[li + 1:], env)
                    return ("fallthrough", None)
                except _Return as r:
                    return ("return", r.value)
            return thunk

        def post(I, res, emit):
            e, pt = I.ghost["e"], I.ghost["pt"]
            if res.outcome[0] == "raise":
                emit("no-exception", ["C08", "C17"], z3.BoolVal(False), info=H.exc_kind(res.outcome[1]))
                return
            kind, val = res.outcome[1]
            if kind == "fallthrough" or not isinstance(val, Obj):
                emit("returns-expression", ["C08"], z3.BoolVal(False), info=f"{kind} {val!r}")
                return
            clause = "invariant-holds" if kind == "inv" else "returned-expression-refines-self"
            refines_obligations(I, res, emit, e, val, pt, split=False, clause=f"{part}:{clause}")
        return H.run_family(prog, f"Expression._fully_reduce[{part}]", setup, post)
    return FamilySpec(f"Expression._fully_reduce[{part}]", list(IMPORTERS) + ["C17"], run, functions=["Expression._fully_reduce"])


_base_specs = specs


def specs(prog, tier):                                        # noqa: F811
    out = _base_specs(prog, tier)
    for cls, k, label, bnd in class_variants(prog, tier):
        out.append(fam_take_reduction_step(cls, k, label, bnd))
        out.append(fam_consolidate(cls, k, label, bnd))
        out.append(fam_normalize_fully_reduced(cls, k, label, bnd))
    out.append(fam_normalize())
    for part in ("init", "step", "exit"):
        out.append(fam_fully_reduce(part))
    return out
