"""C01 / C02 / C14 / C17 / C09: _evaluate per class, Expression.at per class, math_functions leaves."""
from __future__ import annotations
import z3
from .. import harness as H, spec, sym
from ..values import *
from ..engine import FamilySpec
from .common import *


def fam_evaluate(cls, arity, label, bounded):
    def run(prog, tier):
        fd = cls.lookup("_evaluate")

        def setup(I):
            pt = H.make_point(I)
            I.ghost["ambient_names"] = []
            slf = H.make_self(I, cls, arity)
            H.set_memo_coherent(I, slf, pt)
            I.ghost["self"], I.ghost["pt"] = slf, pt
            I.ghost["replay"] = {"kind": "evaluate", "root": slf, "pt": pt, "x": z3.Const("x", sym.Name)}
            return lambda: I.call_funcdef(fd, [slf, pt], {})

        def post(I, res, emit):
            slf, pt = I.ghost["self"], I.ghost["pt"]
            eval_post(I, res, emit, slf, pt)
            # C09: the memo is left coherent: None or (D, S, V)
            if "_value" in slf.fields:
                v = slf.fields["_value"]
                d = spec.den(I, slf, pt)
                if isinstance(v, H.LazyOpt):
                    pass        # untouched on this path: still the coherent pre-state
                elif v is None:
                    pass
                elif is_num(v):
                    emit("memo-coherent", ["C09"], z3.And(d.D, spec.supplies(I, slf, pt), real_term(v) == d.V))
                else:
                    emit("memo-coherent", ["C09"], z3.BoolVal(False), info=repr(v))
        return H.run_family(prog, f"{label}._evaluate", setup, post, bounded=bounded)
    return FamilySpec(f"{label}._evaluate", ["C01", "C02", "C14", "C17", "C09"], run,
                      functions=[f"{cls.name}._evaluate"])


def fam_at(cls, arity, label, bounded, number):
    """Expression.at: public entry, no assumption on memo state (C09 P3)."""
    def run(prog, tier):
        fd = prog.classes["Expression"].methods["at"]

        def setup(I):
            I.ghost["ambient_names"] = []
            slf = H.make_self(I, cls, arity)
            H.set_memo_arbitrary(I, slf)
            I.ghost["self"] = slf
            if number:
                arg = SNum(z3.Real("number"), z3.Bool("number_is_int"))
            else:
                arg = H.make_point(I)
            I.ghost["arg"] = arg
            def built_point():
                pts = list(I.ghost.get("points", {}).values())
                return pts[0] if pts else None

            def its_name():
                p = built_point()
                if p is not None and p.fields["_coordinates"].entries:
                    return I.bi.key_term(p.fields["_coordinates"].entries[0][0])
                return z3.Const("x", sym.Name)
            I.ghost["replay"] = {"kind": "evaluate", "root": slf, "pt": built_point if number else arg,
                                 "x": its_name if number else z3.Const("x", sym.Name), "number": arg if number else None}
            return lambda: I.call_funcdef(fd, [slf, arg], {})

        def post(I, res, emit):
            slf, arg = I.ghost["self"], I.ghost["arg"]
            vs = spec.vars_of(I, slf)
            if number:
                # the point is the one-coordinate point built by the real point_on_number_line
                pts = [p for p in I.ghost.get("points", {}).values()]
                if res.outcome[0] == "raise" and H.exc_kind(res.outcome[1]) == "Exception":
                    emit("number-rejected=>several-variables", ["C14"], sym.card(vs) >= 2)
                    return
                emit("number-accepted=>at-most-one-variable", ["C14"], sym.card(vs) <= 1,
                     extra=[sym.card(vs) >= 0])
                if len(pts) != 1:
                    emit("one-point-built", ["C01", "C14", "C17"], z3.BoolVal(False),
                         info=f"{len(pts)} points; outcome {res.outcome[0]} {H.exc_kind(res.outcome[1]) if res.outcome[0] == 'raise' else ''}")
                    return
                pt = pts[0]
                # the point maps the single variable (if any) to the number
                k = z3.Const("k!any", sym.Name)
                emit("number-line-point", ["C01", "C14"],
                     z3.Implies(sym.member(k, vs),
                                z3.And(spec.point_has(I, pt, k), spec.point_val(I, pt, k) == real_term(arg))),
                     extra=[(sym.card(vs) == 1) == (vs == sym.singleton(sym.the(vs))) if False else z3.BoolVal(True)])
                eval_post(I, res, emit, slf, pt)
            else:
                eval_post(I, res, emit, slf, arg)
        nm = f"{label}.at({'number' if number else 'Point'})"
        return H.run_family(prog, nm, setup, post, bounded=bounded)
    return FamilySpec(f"{label}.at({'number' if number else 'Point'})", ["C01", "C02", "C14", "C17", "C09"], run,
                      functions=["Expression.at", "expression.get_the_single_variable_name", "point.point_on_number_line",
                                 f"{cls.name}._reset_evaluation_cache", f"{cls.name}._evaluate"])


# ---------------------------------------------------------------------------- math_functions leaves

def _mf_specs():
    R = lambda n: SNum(z3.Real(n), z3.Bool(n + "_is_int"))
    Iv = lambda n: SNum(z3.Int(n), True)
    x, y, n, b = z3.Real("x"), z3.Real("y"), z3.Int("n"), z3.Real("base")
    return {
        "minus": ([R("x"), R("y")], z3.BoolVal(True), x - y),
        "negation": ([R("x")], z3.BoolVal(True), -x),
        "divide": ([R("x"), R("y")], y != 0, x / y),
        "reciprocal": ([R("x")], x != 0, 1 / x),
        "power": ([R("x"), R("y")], x > 0, sym.exp(y * sym.ln(x))),
        "nth_power": ([R("x"), Iv("n")], n >= 1, sym.ipow(x, n)),
        "nth_root": ([R("x"), Iv("n")], z3.And(n >= 1, spec.root_defined(x, n)), sym.root(x, n)),
        "exponential": ([R("x"), R("base")], b > 0, sym.exp(x * sym.ln(b))),
        "cosine": ([R("x")], z3.BoolVal(True), sym.cos(x)),
        "sine": ([R("x")], z3.BoolVal(True), sym.sin(x)),
    }


def fam_mf(fname):
    def run(prog, tier):
        fd = prog.func(f"math_functions.{fname}")
        args, dom, val = _mf_specs()[fname]

        def setup(I):
            return lambda: I.call_funcdef(fd, list(args), {})

        def post(I, res, emit):
            if res.outcome[0] == "ret":
                r = res.outcome[1]
                if not is_num(r):
                    emit("returns-number", ["C01", "C17"], z3.BoolVal(False), info=repr(r))
                    return
                emit("returns=>domain", ["C02"], dom)
                emit("value", ["C01"], real_term(r) == val)
            elif H.exc_kind(res.outcome[1]) == "DomainError":
                emit("DomainError=>outside-domain", ["C02"], z3.Not(dom))
            else:
                emit("no-other-exception", ["C17"], z3.BoolVal(False), info=H.exc_kind(res.outcome[1]))
        return H.run_family(prog, f"mf.{fname}", setup, post)
    return FamilySpec(f"mf.{fname}", ["C01", "C02", "C17"], run, functions=[f"math_functions.{fname}"])


def fam_mf_nary(fname, k):
    def run(prog, tier):
        fd = prog.func(f"math_functions.{fname}")
        xs = [z3.Real(f"x{i}") for i in range(k)]
        args = [SNum(x, z3.Bool(f"x{i}_is_int")) for i, x in enumerate(xs)]
        val = z3.RealVal(0 if fname == "add" else 1)
        for x in xs:
            val = val + x if fname == "add" else val * x

        def setup(I):
            return lambda: I.call_funcdef(fd, list(args), {})

        def post(I, res, emit):
            if res.outcome[0] == "ret" and is_num(res.outcome[1]):
                emit("value", ["C01"], real_term(res.outcome[1]) == val)
            else:
                emit("returns-number", ["C01", "C17"], z3.BoolVal(False), info=repr(res.outcome))
        return H.run_family(prog, f"mf.{fname}[k={k}]", setup, post, bounded=f"arity={k}")
    return FamilySpec(f"mf.{fname}[k={k}]", ["C01", "C17"], run, functions=[f"math_functions.{fname}"])


def specs(prog, tier):
    out = []
    for cls, k, label, bnd in class_variants(prog, tier):
        out.append(fam_evaluate(cls, k, label, bnd))
        out.append(fam_at(cls, k, label, bnd, number=False))
        out.append(fam_at(cls, k, label, bnd, number=True))
    for f in _mf_specs():
        out.append(fam_mf(f))
    for k in arities(tier):
        out.append(fam_mf_nary("add", k))
        out.append(fam_mf_nary("multiply", k))
    return out
