"""C18 obligations from the order-independence analysis (pyvc/order.py)."""
from __future__ import annotations
import z3
from .. import harness as H, order
from ..engine import FamilySpec


def fam_order():
    def run(prog, tier):
        fam = H.Family("order-analysis")
        sites = order.analyse(prog)
        by = {}
        for i, s in enumerate(sites):
            ob = H.Obl(f"{s.name()}@{i}", ["C18"], [], z3.BoolVal(bool(s.ok)), kind="order", info=f"{s.text} -- {s.why}")
            ob.scenario = {"kind": "order_battery"}
            fam.obls.append(ob)
            by[s.rule] = by.get(s.rule, 0) + 1
        fam.paths = len(sites)
        fam.extra = {"sites": len(sites), "by_rule": by}
        return fam
    return FamilySpec("order-analysis", ["C18"], run, functions=["<every function of the package>"])


def specs(prog, tier):
    return [fam_order()]
