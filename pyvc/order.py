"""C18: order-independence obligations at every use of an unordered collection.

Iteration order of a `set` (and of a dict filled while iterating a set) is an arbitrary ghost
permutation (it depends on PYTHONHASHSEED for strings); the obligation is that no result
depends on it.  Every syntactic occurrence of an unordered-kind expression is classified;
a context that is not on the allow-list is a violation (fail-closed).  The symbolic executor
enforces the same discipline dynamically: an SSet supports only truthiness, len, membership,
union, the guarded one-element unpack and the for-each-insert loop (pyvc/foreach.py).

O1  set-kinded expressions: truthiness, len, in, union, guarded (x,) = s, for-each-insert,
    plumbing (assignment, argument of a set-kinded parameter, return).
O2  order-tainted dicts (filled by for-each-insert over a set): get / [] / in / plumbing /
    for-each-insert again (utilities.map_dictionary_values).
O3  no id(); hash() only inside __hash__.
O4  no module-level or class-level mutable state, no global / nonlocal.
O5  Point coordinates: get, ==, sorted(items); items() only for printing (the caller's own
    spelling order, independent of the hash seed).
"""
from __future__ import annotations
import ast

SET_FIELDS = {"_variable_names"}
SET_PARAM_NAMES = {"variable_names"}
TAINTED_DICT_PRODUCERS = {"numeric_partials_for", "synthetic_partials_for", "_numeric_partials", "_synthetic_partials"}
TAINTED_DICT_FIELDS = {("LocatedDifferential", "_numeric_partials"), ("Differential", "_synthetic_partials")}
SET_CONSUMER_PARAMS = {("numeric_partials_for", 0), ("synthetic_partials_for", 0), ("__init__", "variable_names")}


class Site:
    def __init__(self, rule, where, ok, text, why=""):
        self.rule, self.where, self.ok, self.text, self.why = rule, where, ok, text, why

    def name(self):
        return f"order/{self.rule}/{self.where}"


def _parents(tree):
    par = {}
    for n in ast.walk(tree):
        for c in ast.iter_child_nodes(n):
            par[c] = n
    return par


def _ann_is_set(ann):
    if ann is None:
        return False
    t = ast.unparse(ann)
    return t.startswith("set[") or t == "set" or t.startswith("Iterable[") or t.startswith("frozenset")


def _for_each_insert(loop, keynames):
    """Body consists only of `NAME[key] = expr` stores (possibly under if/else) and local
    temporaries that carry nothing from one iteration to the next."""
    body_assigned = set()
    for n in ast.walk(ast.Module(body=loop.body, type_ignores=[])):
        if isinstance(n, ast.Assign):
            for t in n.targets:
                if isinstance(t, ast.Name):
                    body_assigned.add(t.id)
        elif isinstance(n, ast.AnnAssign) and isinstance(n.target, ast.Name) and n.value is not None:
            body_assigned.add(n.target.id)
        elif isinstance(n, ast.AugAssign):
            return False

    def reads(expr):
        return {x.id for x in ast.walk(expr) if isinstance(x, ast.Name) and isinstance(x.ctx, ast.Load)}

    def ok(stmts, assigned):
        for st in stmts:
            if isinstance(st, ast.Assign) and len(st.targets) == 1:
                t = st.targets[0]
                if (reads(st.value) & body_assigned) - assigned:
                    return False          # reads a temporary of an earlier iteration
                if isinstance(t, ast.Subscript) and isinstance(t.value, ast.Name) and isinstance(t.slice, ast.Name) \
                        and t.slice.id in keynames:
                    continue
                if isinstance(t, ast.Name):
                    assigned.add(t.id)
                    continue
                return False
            elif isinstance(st, ast.AnnAssign) and isinstance(st.target, ast.Name):
                if st.value is not None:
                    if (reads(st.value) & body_assigned) - assigned:
                        return False
                    assigned.add(st.target.id)
                continue
            elif isinstance(st, ast.If):
                if (reads(st.test) & body_assigned) - assigned:
                    return False
                if not (ok(st.body, set(assigned)) and ok(st.orelse, set(assigned))):
                    return False
            else:
                return False
        return True
    return ok(loop.body, set())


def analyse(prog):
    sites = []
    for mod in prog.modules.values():
        # ---- O4 module-level state
        for node in mod.tree.body:
            where = f"{mod.relpath}:{getattr(node, 'lineno', 0)}:<module>"
            if isinstance(node, ast.Assign):
                v = node.value
                immutable = isinstance(v, ast.Constant) or (isinstance(v, ast.Call) and ast.unparse(v.func) in ("re.compile", "TypeVar")) \
                    or (isinstance(v, ast.List) and all(isinstance(e, ast.Constant) for e in v.elts) and
                        all(isinstance(t, ast.Name) and t.id == "__all__" for t in node.targets))
                sites.append(Site("O4-module-level-binding", where, immutable, ast.unparse(node)[:80],
                                  "constant / compiled pattern / __all__" if immutable else "module-level mutable state"))
        for ci in mod.classes.values():
            for item in ci.node.body:
                if isinstance(item, ast.Assign) or (isinstance(item, ast.AnnAssign) and item.value is not None):
                    sites.append(Site("O4-class-level-state", f"{mod.relpath}:{item.lineno}:{ci.name}", False, ast.unparse(item)[:80],
                                      "class-level attribute shared by all instances"))
        funcs = [(None, f) for f in mod.funcs.values()]
        for ci in mod.classes.values():
            funcs += [(ci, f) for f in ci.methods.values()]
        for ci, fd in funcs:
            sites += _analyse_function(mod, ci, fd)
    return sites


def _analyse_function(mod, ci, fd):
    fn = fd.node
    q = fd.qualname
    sites = []
    par = _parents(fn)
    set_names, dict_names = set(), set()
    for a in fn.args.args + fn.args.kwonlyargs:
        if _ann_is_set(a.annotation) or a.arg in SET_PARAM_NAMES:
            set_names.add(a.arg)

    def is_set(n):
        if isinstance(n, ast.Set) or isinstance(n, ast.SetComp):
            return True
        if isinstance(n, ast.Call) and isinstance(n.func, ast.Name) and n.func.id in ("set", "frozenset"):
            return True
        if isinstance(n, ast.Call) and isinstance(n.func, ast.Attribute) and n.func.attr in ("union", "intersection", "difference", "symmetric_difference") \
                and is_set(n.func.value):
            return True
        if isinstance(n, ast.Attribute) and n.attr in SET_FIELDS:
            return True
        if isinstance(n, ast.Name) and n.id in set_names:
            return True
        if isinstance(n, ast.GeneratorExp) and is_set(n.elt):
            return False        # a generator *of* sets is ordered by its own (ordered) source
        return False

    def is_tainted_dict(n):
        if isinstance(n, ast.Call) and isinstance(n.func, ast.Attribute) and n.func.attr in TAINTED_DICT_PRODUCERS:
            return True
        if isinstance(n, ast.Call) and ast.unparse(n.func).endswith("map_dictionary_values") and n.args and is_tainted_dict(n.args[0]):
            return True
        if isinstance(n, ast.Attribute) and ci is not None and (ci.name, n.attr) in TAINTED_DICT_FIELDS:
            return True
        if isinstance(n, ast.Name) and n.id in dict_names:
            return True
        return False

    # local propagation (two passes are enough for this code base's straight-line bodies)
    for _ in range(2):
        for n in ast.walk(fn):
            if isinstance(n, (ast.Assign, ast.AnnAssign)):
                v = n.value
                ts = n.targets if isinstance(n, ast.Assign) else [n.target]
                if v is None:
                    continue
                for t in ts:
                    if isinstance(t, ast.Name):
                        if is_set(v):
                            set_names.add(t.id)
                        if is_tainted_dict(v):
                            dict_names.add(t.id)

    for n in ast.walk(fn):
        where = f"{mod.relpath}:{getattr(n, 'lineno', 0)}:{q}"
        # ---- O3
        if isinstance(n, ast.Call) and isinstance(n.func, ast.Name) and n.func.id == "id":
            sites.append(Site("O3-id-used", where, False, ast.unparse(n), "object identity differs from process to process"))
        if isinstance(n, ast.Call) and isinstance(n.func, ast.Name) and n.func.id == "hash":
            ok = fn.name == "__hash__"
            sites.append(Site("O3-hash-value-use", where, ok, ast.unparse(n)[:70], "hash values leave only through __hash__" if ok else
                              "a hash value (seed dependent for strings) flows into a result"))
        if isinstance(n, (ast.Global, ast.Nonlocal)):
            sites.append(Site("O4-global-statement", where, False, ast.unparse(n), "shared mutable state"))
        # ---- O1 uses of set-kinded expressions
        if isinstance(n, ast.expr) and is_set(n) and getattr(n, "ctx", None).__class__ is not ast.Store:
            p = par.get(n)
            rule, ok, why = _classify_set_use(n, p, par, fn)
            sites.append(Site(rule, where, ok, ast.unparse(n)[:60] + "  in  " + (ast.unparse(p)[:70] if p is not None else ""), why))
        # ---- O2 uses of order-tainted dicts
        if isinstance(n, ast.expr) and is_tainted_dict(n) and getattr(n, "ctx", None).__class__ is not ast.Store:
            p = par.get(n)
            rule, ok, why = _classify_dict_use(n, p, par)
            sites.append(Site(rule, where, ok, ast.unparse(n)[:60] + "  in  " + (ast.unparse(p)[:70] if p is not None else ""), why))
        # ---- loops over dict views: order matters only for dicts that were filled in set order
        if isinstance(n, ast.For):
            it = n.iter
            if isinstance(it, ast.Call) and isinstance(it.func, ast.Attribute) and it.func.attr in ("items", "values", "keys"):
                src = it.func.value
                params = {a.arg for a in fn.args.args + fn.args.kwonlyargs}
                unknown = isinstance(src, ast.Name) and src.id in params      # provenance unknown (utilities)
                if is_tainted_dict(src) or unknown:
                    keys = set()
                    if isinstance(n.target, ast.Tuple):
                        keys = {e.id for e in n.target.elts[:1] if isinstance(e, ast.Name)}
                    elif isinstance(n.target, ast.Name):
                        keys = {n.target.id}
                    ok = _for_each_insert(n, keys)
                    sites.append(Site("O2-dict-view-loop", where, ok, ast.unparse(it), "for-each-insert: result[key] = f(key, value) only"
                                      if ok else "a loop over a possibly set-ordered dict whose body is order sensitive"))
                else:
                    sites.append(Site("O2-insertion-ordered-dict-loop", where, True, ast.unparse(it),
                                      "the dict is filled in program order (CPython dicts are insertion ordered), not from a set"))
        # ---- O5 Point coordinates
        if ci is not None and ci.name == "Point" and isinstance(n, ast.Attribute) and n.attr == "_coordinates" \
                and isinstance(n.ctx, ast.Load):
            p = par.get(n)
            ok, why = False, "unclassified use of the coordinate dict"
            if isinstance(p, ast.Attribute) and p.attr == "get":
                ok, why = True, "lookup"
            elif isinstance(p, ast.Compare):
                ok, why = True, "dict equality is order independent"
            elif isinstance(p, ast.Attribute) and p.attr in ("items", "keys", "values"):
                gp = par.get(par.get(p))
                if isinstance(gp, ast.Call) and isinstance(gp.func, ast.Name) and gp.func.id == "sorted":
                    ok, why = True, "sorted(items): canonical"
                elif fn.name == "_to_string":
                    ok, why = True, "printing echoes the caller's own spelling order (insertion order, hash-seed independent)"
            sites.append(Site("O5-point-coordinates-use", where, ok, ast.unparse(p)[:70] if p is not None else "", why))
    return sites


def _classify_set_use(n, p, par, fn):
    if p is None:
        return "O1-set-use", False, "no context"
    if isinstance(p, (ast.If, ast.IfExp, ast.While)) and p.test is n:
        return "O1-set-truthiness", True, "emptiness test"
    if isinstance(p, ast.UnaryOp) and isinstance(p.op, ast.Not):
        return "O1-set-truthiness", True, "emptiness test"
    if isinstance(p, ast.BoolOp):
        return "O1-set-truthiness", True, "emptiness test"
    if isinstance(p, ast.Call) and isinstance(p.func, ast.Name) and p.func.id == "len":
        return "O1-set-len", True, "cardinality"
    if isinstance(p, ast.Compare) and any(isinstance(o, (ast.In, ast.NotIn)) for o in p.ops) and n in p.comparators:
        return "O1-set-membership", True, "membership"
    if isinstance(p, ast.Attribute) and p.attr in ("union", "update", "add", "issubset", "issuperset", "isdisjoint", "copy") and p.value is n:
        return "O1-set-union", True, f"order-independent set operation .{p.attr}"
    if isinstance(p, ast.Call) and isinstance(p.func, ast.Attribute) and p.func.attr in ("union", "update", "issubset", "issuperset", "isdisjoint"):
        return "O1-set-union", True, f"argument of .{p.func.attr}"
    if isinstance(p, ast.AugAssign) and isinstance(p.op, ast.BitOr):
        return "O1-set-union", True, "set |= set"
    if isinstance(p, ast.GeneratorExp) and p.elt is n:
        gp = par.get(p)
        if isinstance(gp, ast.Starred):
            ggp = par.get(gp)
            if isinstance(ggp, ast.Call) and isinstance(ggp.func, ast.Attribute) and ggp.func.attr == "union":
                return "O1-set-union", True, "union of the children's sets"
        return "O1-set-in-generator", False, "set elements of a generator consumed in order"
    if isinstance(p, (ast.Assign, ast.AnnAssign)):
        if isinstance(p, ast.Assign) and any(isinstance(t, (ast.Tuple, ast.List)) for t in p.targets):
            t = [t for t in p.targets if isinstance(t, (ast.Tuple, ast.List))][0]
            if len(t.elts) == 1 and _guarded_by_len_one(p, par):
                return "O1-set-singleton-unpack", True, "(x,) = s under len(s) == 1: a singleton has one order"
            return "O1-set-unpack", False, "unpacking a set of unknown size depends on its iteration order"
        return "O1-set-plumbing", True, "assignment"
    if isinstance(p, ast.Return):
        return "O1-set-plumbing", True, "return"
    if isinstance(p, ast.keyword):
        return "O1-set-plumbing", True, "keyword argument of a set-kinded parameter" if p.arg in SET_PARAM_NAMES else "keyword argument"
    if isinstance(p, ast.Call) and n in p.args:
        f = p.func
        fname = f.attr if isinstance(f, ast.Attribute) else (f.id if isinstance(f, ast.Name) else "")
        if fname in ("numeric_partials_for", "synthetic_partials_for", "__init__"):
            return "O1-set-plumbing", True, f"argument of the set-kinded parameter of {fname}"
        return "O1-set-passed-to-call", False, f"passed to {fname or ast.unparse(f)}: unknown consumer"
    if isinstance(p, ast.For) and p.iter is n:
        if isinstance(p.target, ast.Name) and _for_each_insert(p, {p.target.id}):
            return "O1-set-for-each-insert", True, "for k in S: result[k] = pure(k)"
        return "O1-set-iteration", False, "a loop over a set whose body is order sensitive"
    if isinstance(p, ast.Starred):
        return "O1-set-starred", False, "a set spread into positional arguments in iteration order"
    if isinstance(p, ast.comprehension) and p.iter is n:
        comp = par.get(p)
        if isinstance(comp, ast.DictComp) and isinstance(p.target, ast.Name) and isinstance(comp.key, ast.Name) \
                and comp.key.id == p.target.id and len(comp.generators) == 1:
            return "O1-set-for-each-insert", True, "{k: f(k) for k in S}: keyed by the element, order independent"
        if isinstance(comp, ast.SetComp):
            return "O1-set-for-each-insert", True, "a set built from a set"
        consumer = par.get(comp)
        if isinstance(comp, (ast.GeneratorExp, ast.ListComp)) and isinstance(consumer, ast.Call) and isinstance(consumer.func, ast.Name) \
                and consumer.func.id in ("any", "all", "sorted", "set", "frozenset", "min", "max", "len"):
            return "O1-set-order-free-reduction", True, f"consumed by {consumer.func.id}(): order independent"
        return "O1-set-comprehension", False, "a comprehension over a set yields its iteration order"
    if isinstance(p, ast.Attribute):
        return "O1-set-method", p.attr in ("union", "issubset", "issuperset", "isdisjoint", "copy"), f"method .{p.attr}"
    if isinstance(p, ast.Compare):
        return "O1-set-comparison", True, "set comparison is order independent"
    return "O1-set-use", False, f"unclassified context {type(p).__name__}"


def _guarded_by_len_one(node, par):
    p = par.get(node)
    while p is not None:
        if isinstance(p, ast.If):
            t = ast.unparse(p.test)
            if "== 1" in t and node in ast.walk(ast.Module(body=p.body, type_ignores=[])):
                return True
        p = par.get(p)
    return False


def _classify_dict_use(n, p, par):
    if p is None:
        return "O2-dict-use", False, "no context"
    if isinstance(p, ast.Attribute) and p.value is n:
        if p.attr == "get":
            return "O2-dict-lookup", True, "lookup by key"
        if p.attr in ("items", "values", "keys"):
            call = par.get(p)
            user = par.get(call)
            if isinstance(user, ast.For) and user.iter is call:
                keys = set()
                if isinstance(user.target, ast.Tuple):
                    keys = {e.id for e in user.target.elts[:1] if isinstance(e, ast.Name)}
                elif isinstance(user.target, ast.Name):
                    keys = {user.target.id}
                if p.attr != "values" and _for_each_insert(user, keys):
                    return "O2-dict-for-each-insert", True, "for k, v in d.items(): result[k] = f(k, v)"
            if isinstance(user, ast.comprehension) and isinstance(par.get(user), ast.DictComp):
                comp = par.get(user)
                tk = user.target.elts[0] if isinstance(user.target, ast.Tuple) else user.target
                if isinstance(tk, ast.Name) and isinstance(comp.key, ast.Name) and comp.key.id == tk.id and p.attr != "values":
                    return "O2-dict-for-each-insert", True, "{k: f(k, v) for k, v in d.items()}"
            return "O2-dict-view", False, "iteration order of a dict filled from a set"
        return "O2-dict-method", False, f"method .{p.attr}"
    if isinstance(p, ast.Subscript) and p.value is n:
        return "O2-dict-lookup", True, "lookup by key"
    if isinstance(p, ast.Compare):
        return "O2-dict-lookup", True, "membership / equality"
    if isinstance(p, (ast.Assign, ast.AnnAssign, ast.Return)):
        return "O2-dict-plumbing", True, "assignment / return"
    if isinstance(p, ast.Dict):
        return "O2-dict-plumbing", True, "stored in the _private hand-over dict"
    if isinstance(p, ast.Call):
        fname = ast.unparse(p.func)
        if fname.endswith("map_dictionary_values"):
            return "O2-dict-for-each-insert", True, "mapped key-wise (utilities.map_dictionary_values is for-each-insert)"
        return "O2-dict-passed-to-call", False, f"passed to {fname}"
    if isinstance(p, ast.For):
        return "O2-dict-iteration", False, "loop over an order-tainted dict"
    return "O2-dict-use", False, f"unclassified context {type(p).__name__}"
