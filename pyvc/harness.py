"""Harness: builds the symbolic pre-state of one (class, method) obligation family, explores
all paths of the real method and turns contract clauses into named obligations."""
from __future__ import annotations
import time
import z3
from . import sym, spec
from .values import *
from .interp import Interp, Path, explore, Raise, PathAbort, Unsupported, LazyOpt
from .builtin_contracts import SDict, NumBase
from .contracts import ContractTable, ALLNONE
from . import solver


NESTED_ARITY = {"value": 2}        # J: nested n-ary children get arities 0..J (quick 2, thorough 3)


class Obl:
    """One proof obligation and its verdict."""
    def __init__(self, name, props, assumptions, goal, kind="post", info=None, bounded=None, path_labels=None):
        self.name = name
        self.props = props            # property ids this obligation serves
        self.assumptions = assumptions
        self.goal = goal
        self.kind = kind
        self.info = info
        self.bounded = bounded        # None or a string naming the bound (arity)
        self.path_labels = path_labels or []
        self.verdict = None

    def record(self):
        v = self.verdict
        return {"name": self.name, "props": self.props, "kind": self.kind, "bounded": self.bounded,
                "status": v.status if v else None, "backend": v.backend if v else None,
                "ms": round(v.seconds * 1000, 1) if v else None,
                "instances": v.n_instances if v else None, "info": self.info,
                "weak": sorted(getattr(getattr(self, "res", None), "interp", None).ghost.get("weak_externals", {}))
                if getattr(getattr(self, "res", None), "interp", None) is not None else [],
                "path": [f"{l}={d}" for l, d in self.path_labels][:12]}


def make_point(I, name="p"):
    """An arbitrary finite point: coordinates present(name) / vals(name) are symbolic."""
    pt = Obj(I.prog.classes["Point"], name)
    present = z3.Const(f"present[{name}]", sym.NameSet)
    vals = z3.Const(f"coord[{name}]", z3.ArraySort(sym.Name, sym.R))
    pt.fields["_coordinates"] = SDict(base=NumBase(present, vals))
    pt.ghost["ptname"] = name
    I.ghost.setdefault("points", {})[name] = pt
    return pt


def constructor_args(I, cls, name, arity=None):
    """Fresh symbolic constructor arguments satisfying the input type invariant."""
    ct = I.contracts
    c = cls.name
    if c == "Constant":
        return [SNum(z3.Real(f"{name}.value"), z3.Bool(f"{name}.value_is_int"))]
    if c == "Variable":
        return [SName(z3.Const(f"{name}.name", sym.Name))]
    if c in ("Add", "Multiply"):
        return [ct.make_child(I, f"{name}._inners[{i}]") for i in range(arity)]
    if c in ("Minus", "Divide", "Power"):
        return [ct.make_child(I, f"{name}._left"), ct.make_child(I, f"{name}._right")]
    if c in ("NthPower", "NthRoot"):
        return [ct.make_child(I, f"{name}._inner"), SNum(z3.Int(f"{name}.n"), True)]
    if c in ("Exponential", "Logarithm"):
        return [ct.make_child(I, f"{name}._inner"),
                SNum(z3.Real(f"{name}.base"), z3.Bool(f"{name}.base_is_int"))]
    return [ct.make_child(I, f"{name}._inner")]


CONTAINER_MUTATORS = {"append", "add", "update", "setdefault", "pop", "popitem", "clear", "extend", "insert", "remove",
                      "discard", "sort", "reverse", "difference_update", "intersection_update", "symmetric_difference_update"}


# fields that say what an object denotes (the specification reads them): an object under
# verification is an arbitrary *well-formed* one, so these stay as the constructor set them
# from arbitrary arguments; writing them after construction is the frame analysis' business (C10)
STRUCTURAL_FIELDS = {"_inners", "_inner", "_left", "_right", "_parameter", "_variable_names", "name", "value", "_coordinates",
                     "_original_expression", "_point", "_variable_name"}


def arbitrary_history(I, o):
    """An object that has been used before: every field that some method other than the
    constructor assigns (and that is not one of the documented memo fields, which the families
    set up themselves) holds an arbitrary leftover value."""
    import ast as _ast
    from .frames import MEMO_FIELDS
    from .loader import ClassInfo
    if not isinstance(o.cls, ClassInfo):
        return
    cache = I.prog.__dict__.setdefault("_mutable_fields", {})
    if o.cls.name not in cache:
        names = set()
        for c in o.cls.mro:
            for m, fd in c.methods.items():
                if m == "__init__":
                    continue
                for n in _ast.walk(fd.node):
                    if isinstance(n, _ast.Attribute) and isinstance(n.ctx, _ast.Store) and isinstance(n.value, _ast.Name) \
                            and n.value.id == "self" and n.attr not in MEMO_FIELDS:
                        names.add(n.attr)
                    # containers held in a field and updated in place: self.f[k] = v, del self.f[k],
                    # self.f.append(..) / add / update / setdefault / pop / clear / extend / insert / remove / discard
                    tgt = None
                    if isinstance(n, _ast.Subscript) and isinstance(n.ctx, (_ast.Store, _ast.Del)):
                        tgt = n.value
                    elif isinstance(n, _ast.Call) and isinstance(n.func, _ast.Attribute) and n.func.attr in CONTAINER_MUTATORS:
                        tgt = n.func.value
                    if isinstance(tgt, _ast.Attribute) and isinstance(tgt.value, _ast.Name) and tgt.value.id == "self" \
                            and tgt.attr not in MEMO_FIELDS:
                        names.add(tgt.attr)
        cache[o.cls.name] = names
    for f in cache[o.cls.name]:
        if f in o.fields and f not in STRUCTURAL_FIELDS:
            o.fields[f] = Arb(f"{o.name}.{f}")


def make_self(I, cls, arity=None, name="self"):
    """An arbitrary existing object of class cls: built by the real constructor from
    arbitrary children / parameters (raising constructor paths are not objects), then its
    memo fields are made arbitrary."""
    o = Obj(cls, name)
    args = constructor_args(I, cls, name, arity)
    I.contracts.run_init(I, o, cls, args, {})
    o.fields["_is_fully_reduced"] = z3.Bool(f"fr[{name}]")
    o.fields["_evaluation_failed"] = z3.Bool(f"ef[{name}]")
    set_memo_arbitrary(I, o)
    arbitrary_history(I, o)
    return o


def self_children(o):
    if o.cls.name in ("Constant", "Variable"):
        return []
    return spec.children(o)


def set_memo_coherent(I, o, pt):
    """Pre-state Coherent(o, pt): every memo reachable from o is None or the value at pt."""
    if "_value" in o.fields:
        d = spec.den(I, o, pt)
        isnone = z3.Bool(f"{o.name}._value_is_none")
        I.path.assume(z3.Or(isnone, z3.And(d.D, spec.supplies(I, o, pt))))
        o.fields["_value"] = LazyOpt(isnone, SNum(d.V, z3.Bool(f"{o.name}._value_is_int")))
    for ch in self_children(o):
        I.contracts.set_coh(I, ch, ("coh", id(pt)))


def set_memo_arbitrary(I, o):
    """Pre-state of a public entry point: nothing is known about any memo."""
    if "_value" in o.fields:
        o.fields["_value"] = LazyOpt(z3.Bool(f"{o.name}._value_is_none"),
                                     SNum(z3.Real(f"{o.name}._value_old"), z3.Bool(f"{o.name}._value_is_int")))
    # children: coh state defaults to UNKNOWN


def child_facts(I, pt, names):
    """Induction hypotheses that are not tied to a call: absent-variable lemma."""
    out = []
    for ch in I.ghost.get("children", []):
        out += spec.absent_variable_facts(I, ch, pt, names)
    return out


def exc_kind(exc):
    return exc.cls.name


class Family:
    """The obligations of one (class, method[, arity]) pair."""
    def __init__(self, name, bounded=None):
        self.name = name
        self.bounded = bounded
        self.obls = []
        self.paths = 0
        self.stats = {}
        self.error = None
        self.seconds = 0.0
        self.functions = set()


def run_family(prog, fam_name, setup, post, contracts=None, force_contract=(), bounded=None,
               max_paths=6000, nested_arity=None):
    """setup(I) -> thunk (runs the method);  post(I, result, emit) emits clause obligations."""
    fam = Family(fam_name, bounded)
    t0 = time.time()
    if nested_arity is None:
        nested_arity = NESTED_ARITY["value"]
    ct = contracts or ContractTable(prog, nested_arity=nested_arity)

    def make_run(path):
        I = Interp(prog, path, contracts=ct, force_contract=force_contract)
        thunk = setup(I)
        return I, thunk

    try:
        results, stats = explore(make_run, max_paths=max_paths)
    except Unsupported as u:
        fam.error = f"unsupported: {u}"
        fam.seconds = time.time() - t0
        return fam
    fam.paths = len(results)
    orphans = stats.pop("orphans", [])
    unsup = stats.pop("unsupported", [])
    if unsup:
        fam.error = f"unsupported: {unsup[0]}" + (f" (and {len(unsup) - 1} more path(s))" if len(unsup) > 1 else "")
    if not results and not orphans and not unsup:
        # every path was assumed away: the pre-state could not even be built (e.g. the real
        # constructor raised for every well-formed argument) - never a silent pass
        fam.error = "unsupported: vacuous family, every path was assumed away (pre-state could not be built)"
    fam.stats = stats
    # helper contracts this family used instead of the helpers' bodies (each must be established
    # by the helper's own family in the same check, see cli)
    used = set()
    for res in results:
        used |= set(res.interp.ghost.get("helper_contracts_used", ()))
    fam.helpers_used = sorted(used)
    for oi, (opath, dead) in enumerate(orphans):
        for (label, pc, cond, info) in dead:
            ob = Obl(f"{fam_name}/{label}@dead{oi}", props_for_label(label), list(pc), cond, kind="pre", info=info,
                     bounded=bounded, path_labels=opath.labels)
            fam.obls.append(ob)
    for idx, res in enumerate(results):
        I = res.interp
        facts = I.bi.literal_facts()
        bnd = bounded
        if I.ghost.get("bounded"):
            bnd = "; ".join(sorted(set(([bounded] if bounded else []) + I.ghost["bounded"])))
        # mid-path obligations (builtin preconditions, memo protocol)
        for (label, pc, cond, info) in res.obligations:
            if pc is None:
                pc = []
            ob = Obl(f"{fam_name}/{label}@{idx}", props_for_label(label), pc + facts + (I.ghost["qm"].facts() if "qm" in I.ghost else []), cond,
                     kind="pre", info=info, bounded=bnd, path_labels=res.labels)
            ob.res = res
            fam.obls.append(ob)

        qfacts = I.ghost["qm"].facts() if "qm" in I.ghost else []
        if res.outcome[0] == "loopcheck":
            # a path that only checked one arbitrary iteration of a loop against its invariant
            for ob in fam.obls:
                if getattr(ob, "res", None) is res:
                    ob.assumptions = ob.assumptions + qfacts
            continue

        def emit(clause, props, goal, info=None, extra=(), cases=None):
            extra = list(extra) + (I.ghost["qm"].facts() if "qm" in I.ghost else [])
            ob = Obl(f"{fam_name}/{clause}@{idx}", props, list(res.pc) + facts + list(extra), goal,
                     kind="post", info=info, bounded=bnd, path_labels=res.labels)
            ob.res = res
            ob.cases = cases
            ob.clause = clause
            ob.fam_name = fam_name
            ob.idx = idx
            fam.obls.append(ob)
        post(I, res, emit)
        # C10 cross-check: on this path the executor saw no store to a structural field of
        # an existing object
        from . import frames
        bad = frames.heap_log_violations(I)
        emit("frame:only-memo-fields-written", ["C10"], z3.BoolVal(not bad), info="; ".join(bad[:4]) or None)
    fam.seconds = time.time() - t0
    return fam


def props_for_label(label):
    if label.startswith("regex-literal"):
        return ["C14", "C16", "C17"]
    if label.startswith("loop-invariant:symbolic"):
        return ["C05", "C06", "C17"]
    if label.startswith("loop-invariant:"):
        return ["C01", "C02", "C03", "C04", "C07", "C09", "C17"]
    if label.startswith("builtin:"):
        return ["C17", "C02"]
    if label.startswith("memo:"):
        return ["C09"]
    return ["C17"]


def discharge(fam, timeout_ms=30000, seed=0):
    from . import engine
    engine.discharge_all(fam, seed, timeout_ms)
    return fam
