"""Loader: parses the real sources under /repo/src/smoothmath on every run.

Builds a module table and a class table straight from the ASTs.  Nothing in /repo is
copied or annotated.  What is dropped (exactly): docstrings, type annotations (AnnAssign
without value, argument / return annotations), `if TYPE_CHECKING:` imports.
"""
from __future__ import annotations
import ast, hashlib, os

REPO_SRC = os.environ.get("PYVC_REPO_SRC", "/repo/src")
PKG = "smoothmath"


class FuncDef:
    """A function or method as found in the source."""
    def __init__(self, node, module, defcls=None):
        self.node = node
        self.name = node.name
        self.module = module          # ModuleInfo
        self.defcls = defcls          # ClassInfo or None
        decos = []
        for d in node.decorator_list:
            if isinstance(d, ast.Name):
                decos.append(d.id)
            elif isinstance(d, ast.Attribute):
                decos.append(d.attr)
            else:
                decos.append("?")
        self.is_property = "property" in decos
        self.is_abstract = "abstractmethod" in decos
        self.unknown_decorators = [d for d in decos if d not in ("property", "abstractmethod")]

    @property
    def qualname(self):
        if self.defcls is not None:
            return f"{self.defcls.name}.{self.name}"
        return f"{self.module.short}.{self.name}"

    @property
    def where(self):
        return f"{self.module.relpath}:{self.node.lineno}"

    def __repr__(self):
        return f"<FuncDef {self.qualname}>"


class ClassInfo:
    def __init__(self, node, module):
        self.node = node
        self.name = node.name
        self.module = module
        self.base_exprs = node.bases
        self.bases = []               # resolved ClassInfo list (repo classes only)
        self.external_bases = []      # names of non-repo bases (ABC, Exception)
        self.methods = {}
        for item in node.body:
            if isinstance(item, ast.FunctionDef):
                self.methods[item.name] = FuncDef(item, module, self)
        self._mro = None

    @property
    def mro(self):
        if self._mro is None:
            out = [self]
            for b in self.bases:       # single inheritance in this code base
                for c in b.mro:
                    if c not in out:
                        out.append(c)
            self._mro = out
        return self._mro

    def lookup(self, name):
        for c in self.mro:
            if name in c.methods:
                return c.methods[name]
        return None

    def is_subclass_of(self, other):
        return other in self.mro

    def is_exception(self):
        return any("Exception" in c.external_bases for c in self.mro)

    def __repr__(self):
        return f"<class {self.name}>"


class ModuleInfo:
    def __init__(self, name, path, relpath, tree, sha):
        self.name = name
        self.short = name.split(".")[-1]
        self.path = path
        self.relpath = relpath
        self.tree = tree
        self.sha256 = sha
        self.funcs = {}
        self.classes = {}
        self.imports = {}      # local name -> ("module", dotted) | ("from", dotted, attr)
        self.assigns = {}      # module-level NAME = expr (ast node)
        self.is_package = os.path.basename(path) == "__init__.py"


def _strip_docstring(body):
    if body and isinstance(body[0], ast.Expr) and isinstance(getattr(body[0], "value", None), ast.Constant) \
            and isinstance(body[0].value.value, str):
        return body[1:]
    return body


class Program:
    """All modules of the package, parsed."""

    def __init__(self, src_root=None):
        self.src_root = src_root or REPO_SRC
        self.modules = {}
        self.classes = {}      # class name -> ClassInfo (class names are unique in the package)
        self._load()
        self._resolve_bases()

    # -- loading ---------------------------------------------------------------------
    def _load(self):
        root = os.path.join(self.src_root, PKG)
        for dirpath, _dirs, files in sorted(os.walk(root)):
            for f in sorted(files):
                if not f.endswith(".py"):
                    continue
                path = os.path.join(dirpath, f)
                rel = os.path.relpath(path, self.src_root)
                parts = rel[:-3].split(os.sep)
                if parts[-1] == "__init__":
                    parts = parts[:-1]
                name = ".".join(parts)
                with open(path, "rb") as fh:
                    data = fh.read()
                tree = ast.parse(data.decode("utf8"), filename=path)
                mod = ModuleInfo(name, path, "src/" + rel, tree, hashlib.sha256(data).hexdigest())
                self._index_module(mod)
                self.modules[name] = mod

    def _index_module(self, mod):
        for node in _strip_docstring(mod.tree.body):
            if isinstance(node, ast.Import):
                for a in node.names:
                    local = a.asname or a.name.split(".")[0]
                    mod.imports[local] = ("module", a.name if a.asname else a.name.split(".")[0])
            elif isinstance(node, ast.ImportFrom):
                for a in node.names:
                    mod.imports[a.asname or a.name] = ("from", node.module, a.name)
            elif isinstance(node, ast.FunctionDef):
                mod.funcs[node.name] = FuncDef(node, mod)
            elif isinstance(node, ast.ClassDef):
                ci = ClassInfo(node, mod)
                mod.classes[node.name] = ci
                if node.name in self.classes:
                    raise RuntimeError(f"duplicate class name {node.name}")
                self.classes[node.name] = ci
            elif isinstance(node, ast.Assign):
                if len(node.targets) == 1 and isinstance(node.targets[0], ast.Name):
                    mod.assigns[node.targets[0].id] = node.value
            elif isinstance(node, ast.If):
                # `if TYPE_CHECKING:` imports are dropped (typing only)
                t = node.test
                if not (isinstance(t, ast.Name) and t.id == "TYPE_CHECKING"):
                    raise RuntimeError(f"unsupported module-level if in {mod.relpath}:{node.lineno}")
            elif isinstance(node, (ast.Expr, ast.AnnAssign, ast.Pass)):
                pass
            else:
                raise RuntimeError(f"unsupported module-level statement {type(node).__name__} in {mod.relpath}:{node.lineno}")

    def _resolve_bases(self):
        for ci in self.classes.values():
            for b in ci.base_exprs:
                name = b.attr if isinstance(b, ast.Attribute) else (b.id if isinstance(b, ast.Name) else None)
                if name in self.classes:
                    ci.bases.append(self.classes[name])
                else:
                    ci.external_bases.append(name)

    # -- name resolution ------------------------------------------------------------
    def resolve_global(self, mod, name, _seen=None):
        """Resolve a module-level name to ('func', FuncDef) | ('class', ClassInfo) |
        ('module', ModuleInfo) | ('extmodule', str) | ('assign', (mod, ast)) | None."""
        if name in mod.funcs:
            return ("func", mod.funcs[name])
        if name in mod.classes:
            return ("class", mod.classes[name])
        if name in mod.assigns:
            return ("assign", (mod, mod.assigns[name]))
        if name in mod.imports:
            imp = mod.imports[name]
            if imp[0] == "module":
                dotted = imp[1]
                if dotted in self.modules:
                    return ("module", self.modules[dotted])
                return ("extmodule", dotted)
            _k, dotted, attr = imp
            if dotted in self.modules:
                target = self.modules[dotted]
                sub = dotted + "." + attr
                if sub in self.modules and attr not in target.funcs and attr not in target.classes \
                        and attr not in target.imports:
                    return ("module", self.modules[sub])
                _seen = _seen or set()
                if (dotted, attr) in _seen:
                    return None
                _seen.add((dotted, attr))
                return self.resolve_global(target, attr, _seen)
            return ("extname", (dotted, attr))
        return None

    def module_attr(self, mod, attr):
        sub = mod.name + "." + attr
        r = self.resolve_global(mod, attr)
        if r is not None:
            return r
        if sub in self.modules:
            return ("module", self.modules[sub])
        return None

    # -- conveniences ---------------------------------------------------------------
    def cls(self, name):
        return self.classes[name]

    def concrete_expression_classes(self):
        base = self.classes["Expression"]
        out = []
        for ci in self.classes.values():
            if ci.is_subclass_of(base) and ci.module.name.startswith("smoothmath._private.expression."):
                out.append(ci)
        return sorted(out, key=lambda c: c.name)

    def source_hashes(self):
        return {m.relpath: m.sha256 for m in self.modules.values()}

    def func(self, qual):
        """'Class.method' or 'module_short.func'."""
        a, b = qual.split(".")
        if a in self.classes:
            f = self.classes[a].lookup(b)
            if f is None:
                raise KeyError(qual)
            return f
        for m in self.modules.values():
            if m.short == a and b in m.funcs:
                return m.funcs[b]
        raise KeyError(qual)


if __name__ == "__main__":
    p = Program()
    for c in p.concrete_expression_classes():
        print(c.name, [k.name for k in c.mro])
    print(len(p.modules), "modules")
