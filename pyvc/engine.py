"""Engine: runs obligation families in parallel, matches known findings, writes evidence."""
from __future__ import annotations
import json, os, sys, time, traceback, multiprocessing as mp
import z3
from .loader import Program
from . import harness as H, solver

VERIF = os.path.dirname(os.path.dirname(os.path.abspath(__file__)))

EXIT_OK, EXIT_VIOLATION, EXIT_UNDECIDED, EXIT_ENGINE = 0, 1, 2, 3

ASSUMPTIONS = [
    "floats are treated as mathematical reals, ints as mathematical integers: rounding, overflow and underflow are outside the proofs",
    "math.e denotes e (ln(E)=1, 2.718<E<2.719); math.sqrt/cbrt/log/sin/cos and ** are the real functions (builtin contracts, pyvc/builtin_contracts.py)",
    "closed world: the only Expression subclasses are the 15 in the class table; no monkey-patching; attribute lookup is the static MRO",
    "input type invariant: coordinates and Constant values are finite real numbers (int or float); points are Points; variables are Variable or str",
    "interpreter resources are unbounded (no RecursionError / MemoryError)",
    "real-analysis facts about exp/ln/sin/cos/ipow/root are used as ground instances (pyvc/axioms.py); their statements are in spec/lemmas.lean",
    "structural induction over finite immutable trees: each recursive method is proved per concrete class against the same contract assumed for its children",
    "symbolic-arity (G-mode) proofs: universally quantified facts are instantiated by hand at the index terms in play (sound, incomplete); big operators, filtered / partitioned / entry-removed lists are given their meaning by the instance schemas of pyvc/gmode.py, gexec.py (Lean counterparts in spec/lemmas.lean: ax_big*), and the ghost functions cnt / sigma / tau of a partition are the mathematical ones (their defining facts are stated, not derived); an undischarged symbolic-arity obligation is reported as 'no proof' (NOTE), never as a violation",
    "helper contracts used inside symbolic-arity proofs (math_functions.multiply, utilities.list_without_entry_at, utilities.partition_by_predicate, the n-ary constructor) are each discharged against the helper's real body by a family of the same check",
    "the give-up branch of Expression._fully_reduce (after REDUCTION_STEPS_BOUND = 1000 steps) sets _is_fully_reduced on a node that need not be rule-free; no history was found in which that is observable (the node is freshly rebuilt), and the flag-ownership rule F5 accepts _fully_reduce as a writer",
]


class FamilySpec:
    def __init__(self, name, props, run, functions=(), quick=True, optional=False):
        self.name = name
        self.props = set(props)
        self.run = run                # callable(prog, tier) -> harness.Family
        self.functions = list(functions)
        self.quick = quick            # False: thorough tier only
        self.optional = optional      # True: an upgrade (unbounded arity); when the code leaves its
                                      # supported shapes the bounded families still decide the property


_PROG = None
_SPECS = None
_TIER = "quick"
_SEED = 0


class FamilyTimeout(Exception):
    pass


FAMILY_BUDGET_S = {"quick": 420, "thorough": 1200}


def _worker(idx):
    import signal
    spec = _SPECS[idx]
    t0 = time.time()

    def on_alarm(signum, frame):
        raise FamilyTimeout()
    try:
        signal.signal(signal.SIGALRM, on_alarm)
        signal.alarm(FAMILY_BUDGET_S.get(_TIER, 420))
    except (ValueError, AttributeError):
        pass
    try:
        H.NESTED_ARITY["value"] = 3 if _TIER == "thorough" else 2
        fam = spec.run(_PROG, _TIER)
        if fam.obls:
            discharge_all(fam, _SEED)
            if _TIER == "thorough" and fam.error is None:
                second_opinion(fam)
        recs = []
        n_failed = 0
        for o in fam.obls:
            r = o.record()
            if o.verdict is not None and o.verdict.status == "failed":
                n_failed += 1
                if n_failed > 6:
                    # many obligations of one family fail for one reason: the first few carry
                    # counter-models and replay scenarios, the rest are only reported
                    r["scenario"] = None
                    recs.append(r)
                    continue
                r["model"] = extract_model(o)
                from . import replay
                if "memo" in o.name.split("/", 1)[-1] or "operand-variable-set-untouched" in o.name or "/frame:" in o.name:
                    r["scenario"] = {"kind": "history_battery"}
                elif "regex-literal" in o.name:
                    r["scenario"] = {"kind": "name_battery"}
                else:
                    r["scenario"] = replay.build_scenario(o.res.interp, o.res, o.verdict.model, o.name) if getattr(o, "res", None) \
                        else getattr(o, "scenario", None)
            if o.verdict is not None and o.verdict.status == "unknown":
                r["reason"] = o.verdict.reason
            recs.append(r)
        try:
            signal.alarm(0)
        except (ValueError, AttributeError):
            pass
        return {"family": spec.name, "props": sorted(spec.props), "functions": spec.functions, "optional": spec.optional,
                "error": fam.error, "paths": fam.paths, "stats": fam.stats, "obls": recs,
                "explore_s": round(fam.seconds, 3), "wall_s": round(time.time() - t0, 3),
                "bounded": fam.bounded, "extra": getattr(fam, "extra", None), "helpers": getattr(fam, "helpers_used", [])}
    except FamilyTimeout:
        return {"family": spec.name, "props": sorted(spec.props), "functions": spec.functions, "optional": spec.optional,
                "error": f"unsupported: the family exceeded its time budget of {FAMILY_BUDGET_S.get(_TIER, 420)} s (path explosion or a solver query that does not return)",
                "paths": 0, "stats": {}, "obls": [], "explore_s": 0, "wall_s": round(time.time() - t0, 3), "bounded": None}
    except Exception:
        tb = traceback.format_exc()
        return {"family": spec.name, "props": sorted(spec.props), "functions": spec.functions, "optional": spec.optional,
                "error": ("unsupported: (optional family) " + tb.strip().splitlines()[-1]) if spec.optional else "engine: " + tb, "paths": 0, "stats": {}, "obls": [],
                "explore_s": 0, "wall_s": round(time.time() - t0, 3), "bounded": None}


def discharge_all(fam, seed=0, timeout_ms=solver.DEFAULT_TIMEOUT_MS):
    """Discharge every obligation of a family; identical queries (same hash-consed
    assumptions and goal, which happens for mid-path obligations on a shared path prefix)
    are sent to the solver once."""
    cache = {}

    def run(o, **kw):
        if z3.is_true(o.goal):
            return solver.Verdict("proved", 0.0, "trivial")
        key = (tuple(sorted(f.get_id() for f in o.assumptions)), o.goal.get_id())
        if key in cache:
            v = cache[key]
            return solver.Verdict(v.status, 0.0, v.backend + "(shared)", v.model, v.n_instances, v.reason)
        v = solver.prove(o.assumptions, o.goal, seed=seed, **kw)
        cache[key] = v
        return v

    out = []
    for o in fam.obls:
        cases = getattr(o, "cases", None)
        if cases and len(cases) > 1:
            # adaptive case split (DESIGN §3.2): try the clause as a whole first; only when
            # that is not proved is it split into the named sign / parity cases
            v = run(o, timeout_ms=12000, portfolio=False)
            if v.status == "proved":
                o.verdict = v
                out.append(o)
                continue
            cache.pop((tuple(sorted(f.get_id() for f in o.assumptions)), o.goal.get_id()), None)
            for label, conds in cases:
                c = H.Obl(f"{o.fam_name}/{o.clause}[{label}]@{o.idx}", o.props, o.assumptions + list(conds), o.goal,
                          kind=o.kind, info=label, bounded=o.bounded, path_labels=o.path_labels)
                c.res = o.res
                c.verdict = run(c, timeout_ms=timeout_ms)
                out.append(c)
            continue
        o.verdict = run(o, timeout_ms=timeout_ms)
        out.append(o)
    fam.obls = out


def second_opinion(fam, budget_ms=10000):
    """Thorough tier: cvc5 is asked about every obligation z3 decided.  A cvc5 `sat` on an
    obligation z3 proved (or `unsat` on one z3 refuted) is an engine error; a cvc5 timeout /
    unknown is only 'no second opinion'."""
    agree = disagree = none = 0
    for o in fam.obls:
        v = o.verdict
        if v is None or v.backend == "trivial" or "(shared)" in v.backend or v.status == "unknown":
            continue
        r = solver.cvc5_verdict(o.assumptions, o.goal, budget_ms)
        if r is None:
            none += 1
        elif (r == "unsat") == (v.status == "proved"):
            agree += 1
        else:
            disagree += 1
            fam.error = f"engine: solver disagreement on {o.name}: z3 says {v.status}, cvc5 says {r}"
    fam.extra = dict(getattr(fam, "extra", None) or {}, cvc5_agree=agree, cvc5_no_opinion=none, cvc5_disagree=disagree)


def extract_model(o):
    """Plain-data view of a counter-model: every constant and the point-wise functions."""
    m = o.verdict.model
    out = {"consts": {}, "funcs": {}}
    if m is None:
        return out
    for d in m.decls():
        try:
            if d.arity() == 0:
                out["consts"][d.name()] = _val(m[d])
            elif d.name().startswith("dV["):
                fi = m[d]
                out["funcs"][d.name()] = {"else": _val(fi.else_value()) if fi.else_value() is not None else None,
                                          "entries": [[str(fi.entry(i).arg_value(0)), _val(fi.entry(i).value())]
                                                      for i in range(fi.num_entries())]}
        except Exception:
            pass
    # evaluate the ambient name and coordinates for readability
    return out


def _val(v):
    if v is None:
        return None
    if z3.is_int_value(v):
        return v.as_long()
    if z3.is_rational_value(v):
        fr = v.as_fraction()
        return [fr.numerator, fr.denominator]
    if z3.is_algebraic_value(v):
        return ["approx", v.approx(20).as_decimal(20)]
    if z3.is_true(v):
        return True
    if z3.is_false(v):
        return False
    return str(v)


def run_specs(specs, tier="quick", seed=0, jobs=None, prog=None):
    global _PROG, _SPECS, _TIER, _SEED
    _PROG = prog or Program()
    _SPECS = specs
    _TIER = tier
    _SEED = seed
    jobs = jobs or min(16, os.cpu_count() or 4)
    if jobs == 1 or len(specs) <= 1:
        return [_worker(i) for i in range(len(specs))], _PROG
    return _run_killable(len(specs), jobs, FAMILY_BUDGET_S.get(tier, 420) + 30), _PROG


def _child_main(idx, conn):
    try:
        conn.send(_worker(idx))
    except Exception:
        conn.send({"family": _SPECS[idx].name, "props": sorted(_SPECS[idx].props), "functions": _SPECS[idx].functions,
                   "optional": _SPECS[idx].optional, "error": "engine: " + traceback.format_exc(), "paths": 0, "stats": {},
                   "obls": [], "explore_s": 0, "wall_s": 0, "bounded": None})
    finally:
        conn.close()


def _run_killable(n, jobs, hard_limit_s):
    """Every family runs in its own forked process; one that does not come back within the hard
    limit is killed and reported as undecided (a stuck solver call cannot hang the check)."""
    ctx = mp.get_context("fork")
    results = [None] * n
    pending = list(range(n))
    running = {}          # idx -> (process, parent_conn, start)
    retried = {}
    while pending or running:
        while pending and len(running) < jobs:
            idx = pending.pop(0)
            parent, child = ctx.Pipe(duplex=False)
            p = ctx.Process(target=_child_main, args=(idx, child), daemon=True)
            p.start()
            child.close()
            running[idx] = (p, parent, time.time())
        done = []
        for idx, (p, conn, t0) in running.items():
            if conn.poll(0):
                try:
                    results[idx] = conn.recv()
                except EOFError:
                    results[idx] = None
                done.append(idx)
            elif not p.is_alive():
                # the process may have sent its result and exited between the two tests above
                if conn.poll(0.5):
                    try:
                        results[idx] = conn.recv()
                    except EOFError:
                        results[idx] = None
                done.append(idx)
            elif time.time() - t0 > hard_limit_s:
                p.kill()
                results[idx] = {"family": _SPECS[idx].name, "props": sorted(_SPECS[idx].props), "functions": _SPECS[idx].functions,
                                "optional": _SPECS[idx].optional,
                                "error": f"unsupported: the family did not finish within {hard_limit_s} s and was stopped",
                                "paths": 0, "stats": {}, "obls": [], "explore_s": 0, "wall_s": round(time.time() - t0, 1), "bounded": None}
                done.append(idx)
        for idx in done:
            p, conn, _t = running.pop(idx)
            p.join(timeout=5)
            conn.close()
            if results[idx] is None and retried.get(idx, 0) < 1:
                # a family process that vanished (killed by the system, crash inside a solver
                # library) is run once more before it is reported
                retried[idx] = retried.get(idx, 0) + 1
                pending.append(idx)
                continue
            if results[idx] is None:
                results[idx] = {"family": _SPECS[idx].name, "props": sorted(_SPECS[idx].props), "functions": _SPECS[idx].functions,
                                "optional": _SPECS[idx].optional, "error": "engine: the family process died without a result",
                                "paths": 0, "stats": {}, "obls": [], "explore_s": 0, "wall_s": 0, "bounded": None}
        if not done:
            time.sleep(0.02)
    return results


# ---------------------------------------------------------------------------- known findings

def load_known_findings():
    p = os.path.join(VERIF, "known_findings.json")
    if not os.path.exists(p):
        return {"findings": [], "fixed": []}
    with open(p) as fh:
        return json.load(fh)


def match_known(finding_list, prop, obl):
    """A failing obligation is a known finding iff an entry lists the same property, the
    same obligation (family/clause) and the same case."""
    base = obl["name"].split("@")[0]
    for f in finding_list:
        if f["property"] != prop:
            continue
        if f["obligation"] != base:
            continue
        case = f.get("case")
        if case is not None and case != obl.get("case"):
            continue
        return f
    return None
