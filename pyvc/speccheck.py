"""./check speccheck [N] : sanity cross-check of the specification tables (never evidence).

Random concrete trees are (a) built and evaluated by the real library (values, forward
partials), (b) built as executor objects through the real constructors and read through the
spec tables of pyvc/spec.py; the resulting z3 terms are evaluated with mpmath, (c) evaluated by
the independent replay oracle.  A disagreement means the SPEC or the ENGINE is wrong (exit 3)."""
from __future__ import annotations
import os, random, sys
import z3
import mpmath as mp
from . import sym, spec
from .values import *
from .loader import Program, REPO_SRC
from .interp import Interp, Path, Raise
from .contracts import ContractTable
from .builtin_contracts import SDict

mp.mp.dps = 40
UNARY = ["Negation", "Reciprocal", "Sine", "Cosine"]
PARAM = ["NthPower", "NthRoot", "Exponential", "Logarithm"]
BINARY = ["Minus", "Divide", "Power"]
NARY = ["Add", "Multiply"]


def rand_tree(rng, depth, names):
    if depth == 0 or rng.random() < 0.25:
        if rng.random() < 0.5:
            return ["Variable", rng.choice(names)]
        return ["Constant", rng.choice([0, 1, -1, 2, 3, 0.5, -2.5, 4, 1.5])]
    k = rng.choice(UNARY + PARAM + BINARY + NARY)
    if k in UNARY:
        return [k, rand_tree(rng, depth - 1, names)]
    if k in ("NthPower", "NthRoot"):
        return [k, rand_tree(rng, depth - 1, names), rng.choice([1, 2, 3, 4, 5])]
    if k in ("Exponential", "Logarithm"):
        return [k, rand_tree(rng, depth - 1, names), rng.choice([2, 0.5, 10, 3.0])]
    if k in BINARY:
        return [k, rand_tree(rng, depth - 1, names), rand_tree(rng, depth - 1, names)]
    return [k] + [rand_tree(rng, depth - 1, names) for _ in range(rng.choice([0, 1, 2, 3]))]


class Undefined(Exception):
    pass


def ev(t):
    """mpmath value of a ground z3 term over the spec vocabulary."""
    if z3.is_int_value(t):
        return mp.mpf(t.as_long())
    if z3.is_rational_value(t):
        fr = t.as_fraction()
        return mp.mpf(fr.numerator) / mp.mpf(fr.denominator)
    if z3.is_true(t):
        return True
    if z3.is_false(t):
        return False
    k = t.decl().kind()
    name = t.decl().name()
    cs = t.children()
    if k == z3.Z3_OP_UNINTERPRETED:
        if name == "E":
            return mp.e
        if name == "strname":
            return ("name", ev(cs[0]))
        a = [ev(c) for c in cs]
        if name == "exp":
            return mp.exp(a[0])
        if name == "ln":
            if a[0] <= 0:
                raise Undefined("ln of non-positive")
            return mp.log(a[0])
        if name == "sin":
            return mp.sin(a[0])
        if name == "cos":
            return mp.cos(a[0])
        if name == "ipow":
            if a[1] < 0:
                raise Undefined("negative integer power")
            return a[0] ** int(a[1])
        if name == "root":
            x, n = a[0], int(a[1])
            if n == 1:
                return x
            if x > 0:
                return mp.root(x, n)
            if x < 0 and n % 2 == 1:
                return -mp.root(-x, n)
            raise Undefined("root outside its domain")
        raise KeyError(name)
    if k == z3.Z3_OP_ADD:
        return mp.fsum(ev(c) for c in cs)
    if k == z3.Z3_OP_MUL:
        return mp.fprod(ev(c) for c in cs)
    if k == z3.Z3_OP_SUB:
        r = ev(cs[0])
        for c in cs[1:]:
            r -= ev(c)
        return r
    if k == z3.Z3_OP_UMINUS:
        return -ev(cs[0])
    if k in (z3.Z3_OP_DIV, z3.Z3_OP_IDIV):
        d = ev(cs[1])
        if d == 0:
            raise Undefined("division by zero")
        return ev(cs[0]) / d if k == z3.Z3_OP_DIV else mp.floor(ev(cs[0]) / d)
    if k == z3.Z3_OP_MOD:
        return ev(cs[0]) % ev(cs[1])
    if k in (z3.Z3_OP_TO_REAL, z3.Z3_OP_TO_INT):
        return ev(cs[0])
    if k == z3.Z3_OP_ITE:
        return ev(cs[1]) if ev(cs[0]) else ev(cs[2])
    if k == z3.Z3_OP_AND:
        return all(ev(c) for c in cs)
    if k == z3.Z3_OP_OR:
        return any(ev(c) for c in cs)
    if k == z3.Z3_OP_NOT:
        return not ev(cs[0])
    if k == z3.Z3_OP_EQ:
        return ev(cs[0]) == ev(cs[1])
    if k == z3.Z3_OP_DISTINCT:
        return ev(cs[0]) != ev(cs[1])
    if k == z3.Z3_OP_LE:
        return ev(cs[0]) <= ev(cs[1])
    if k == z3.Z3_OP_LT:
        return ev(cs[0]) < ev(cs[1])
    if k == z3.Z3_OP_GE:
        return ev(cs[0]) >= ev(cs[1])
    if k == z3.Z3_OP_GT:
        return ev(cs[0]) > ev(cs[1])
    raise KeyError(f"{name} kind {k}")


def build_obj(I, tree):
    C = I.prog.classes
    c = tree[0]
    if c == "Constant":
        return I.instantiate(C[c], [tree[1]], {})
    if c == "Variable":
        return I.instantiate(C[c], [tree[1]], {})
    if c in ("NthPower", "NthRoot"):
        return I.instantiate(C[c], [build_obj(I, tree[1]), tree[2]], {})
    if c in ("Exponential", "Logarithm"):
        return I.instantiate(C[c], [build_obj(I, tree[1])], {"base": tree[2]})
    return I.instantiate(C[c], [build_obj(I, t) for t in tree[1:]], {})


def main(n=300, seed=0):
    sys.path.insert(0, REPO_SRC)
    from . import replaylib as rl
    import smoothmath as sm
    rng = random.Random(seed)
    prog = Program()
    names = ["x", "y"]
    bad = 0
    checked = 0
    defined = 0
    for i in range(n):
        tree = rand_tree(rng, 3, names)
        point = {"x": rng.choice([-2.0, -0.5, 0.0, 0.5, 1.0, 2.0, 3.0]), "y": rng.choice([-1.5, 0.0, 1.0, 2.5])}
        # (a) real library
        real_v = rl.real_outcome(lambda: rl.build(tree).at(sm.Point(**point)))
        real_d = rl.real_outcome(lambda: sm.Partial(rl.build(tree), "x").at(sm.Point(**point)))
        # (c) independent oracle
        orc_v = rl.oracle_outcome(tree, point)
        # (b) spec tables through the executor's objects
        I = Interp(prog, Path(), contracts=ContractTable(prog))
        try:
            obj = build_obj(I, tree)
            pt = I.instantiate(prog.classes["Point"], [], {"x": point["x"], "y": point["y"]})
        except Raise:
            continue
        d = spec.den(I, obj, pt)
        try:
            D = bool(ev(z3.simplify(d.D)))
            V = ev(d.V) if D else None
            dV = ev(d.dV(sym.literal_name("x"))) if D else None
        except Undefined:
            D, V, dV = False, None, None
        checked += 1
        defined += 1 if D else 0
        ok = True
        if D != (real_v[0] == "value") or D != (orc_v[0] == "value"):
            ok = False
        elif D:
            tol = lambda a, b: abs(a - b) <= 1e-7 * max(1, abs(b))
            if not tol(float(V), real_v[1]) or not tol(float(V), float(orc_v[1])):
                ok = False
            if real_d[0] != "value" or not tol(float(dV), real_d[1]):
                ok = False
        if not ok:
            bad += 1
            if bad <= 10:
                print("DISAGREE", tree, point, "spec:", D, V, dV, "real:", real_v, real_d, "oracle:", orc_v)
    print(f"speccheck: {checked} random trees ({defined} inside their domain), {bad} disagreement(s) between spec tables, the real library and the replay oracle")
    return 3 if bad else 0


if __name__ == "__main__":
    sys.exit(main(int(sys.argv[1]) if len(sys.argv) > 1 else 300))
