"""for-each-insert rule for loops over unordered collections (filled in for C04/C18)."""
def for_special(I, it, st, env):
    return False
