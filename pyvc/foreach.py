"""for-each-insert rule: loops over unordered collections (sets of names, dicts keyed by
such sets).

A loop `for k in S: result[k] = body(k)` over a set S of names (iteration order = arbitrary
ghost permutation) is executed symbolically as:
  * either some element makes the body raise: a witness k_w in S is chosen and the body is
    run on it (only its raising outcomes are kept) - this covers every order, because
    whichever element raises first, some element raised;
  * or no element raises: `result` becomes a lazily defined map with domain S whose value at
    a queried key is obtained by running the body on that key (a raise there contradicts the
    path and is pruned).
The body must only write result[k] (checked syntactically), which makes the loop's effect
independent of the iteration order - this is obligation O1/O2 of C18.
"""
from __future__ import annotations
import ast
import z3
from . import sym
from .values import *


class LazyBase:
    """base of an SDict: domain (a Bool-valued python function of the key term) + compute."""
    def __init__(self, member_fn, compute_fn, descr):
        self.member_fn = member_fn
        self.compute_fn = compute_fn
        self.descr = descr

    def get(self, I, key):
        from .interp import Raise, PathAbort
        k = I.bi.key_term(key)
        if k is None or k.sort() != sym.Name:
            return None
        if not I.path.branch(self.member_fn(k), f"in-domain({self.descr})"):
            return None
        try:
            return self.compute_fn(I, SName(k) if not isinstance(key, str) else key)
        except Raise:
            raise PathAbort()      # the loop completed on this path: no element raised

    def __repr__(self):
        return f"LazyBase({self.descr})"


def _store_target(body, loopvars):
    """The dict name written by `NAME[key] = ...` statements; every statement of the body must
    be such a store or an if/else of such stores."""
    names = set()

    def scan(stmts):
        for st in stmts:
            if isinstance(st, ast.Assign) and len(st.targets) == 1 and isinstance(st.targets[0], ast.Subscript) \
                    and isinstance(st.targets[0].value, ast.Name) and isinstance(st.targets[0].slice, ast.Name) \
                    and st.targets[0].slice.id in loopvars:
                names.add(st.targets[0].value.id)
            elif isinstance(st, ast.If):
                scan(st.body)
                scan(st.orelse)
            elif isinstance(st, ast.Assign) and all(isinstance(t, ast.Name) for t in st.targets):
                pass        # local temporaries
            elif isinstance(st, ast.AnnAssign) and isinstance(st.target, ast.Name):
                pass
            else:
                names.add(None)
    scan(body)
    if len(names) == 1 and None not in names:
        return names.pop()
    return None


def for_special(I, it, st, env):
    from .builtin_contracts import SDict, DictView
    from .interp import Raise, PathAbort, Unsupported, Env
    if isinstance(it, SSet) and z3.simplify(it.term).get_id() == z3.simplify(sym.empty_set()).get_id():
        return True                  # a loop over the empty set runs no iteration
    if isinstance(it, SSet):
        if not isinstance(st.target, ast.Name):
            raise Unsupported("loop over a set with a non-name target")
        loopvar = st.target.id
        member_fn = lambda k: sym.member(k, it.term)
        bind = lambda e, key: e.vars.__setitem__(loopvar, key)
        keyvars = {loopvar}
        descr = f"set@{st.lineno}"
    elif isinstance(it, DictView) and it.d.base is not None:
        src = it.d
        if src.entries:
            raise Unsupported("loop over a dict with both entries and symbolic base")
        if not isinstance(src.base, LazyBase):
            raise Unsupported("loop over a dict with a non-lazy symbolic base")
        if it.kind == "items":
            if not (isinstance(st.target, ast.Tuple) and len(st.target.elts) == 2
                    and all(isinstance(e, ast.Name) for e in st.target.elts)):
                raise Unsupported("items() loop target")
            kv, vv = st.target.elts[0].id, st.target.elts[1].id

            def bind(e, key):
                e.vars[kv] = key
                e.vars[vv] = src.base.get(I, key)
            keyvars = {kv}
        elif it.kind == "keys":
            loopvar = st.target.id
            bind = lambda e, key: e.vars.__setitem__(loopvar, key)
            keyvars = {loopvar}
        else:
            raise Unsupported("values() loop over symbolic dict")
        member_fn = src.base.member_fn
        descr = f"dict@{st.lineno}"
    else:
        return False
    target = _store_target(st.body, keyvars)
    if target is None:
        raise Unsupported(f"loop over an unordered collection is not of for-each-insert shape ({env.module.relpath}:{st.lineno})")
    ok, d = env.lookup(target)
    if not ok or not isinstance(d, SDict) or d.entries or d.base is not None:
        raise Unsupported("for-each-insert target is not a fresh empty dict")
    I.ghost.setdefault("foreach_sites", []).append(f"{env.module.relpath}:{st.lineno}")

    def run_body(I2, key):
        e2 = Env(env.module, env, env.funcdef, env.frame_id)
        tmp = SDict()
        I2.heap_log.append(("alloc-dict", I2.heap_log.note(tmp), None, "<for-each-insert>"))
        e2.vars[target] = tmp
        bind(e2, key)
        I2.exec_block(st.body, e2)
        if not tmp.entries:
            raise Unsupported("for-each-insert body did not store")
        return tmp.entries[-1][1]

    if I.path.branch(z3.Bool(I.path.fresh_name(f"loop@{st.lineno}.some-element-raises")), f"loop-raises@{st.lineno}"):
        kw = z3.Const(I.path.fresh_name(f"kw@{st.lineno}"), sym.Name)
        I.path.assume(member_fn(kw))
        I.ghost.setdefault("ambient_names", []).append(kw)
        I.ghost.setdefault("witness_names", []).append(kw)
        run_body(I, SName(kw))
        raise PathAbort()          # body did not raise on the witness: contradiction
    d.base = LazyBase(member_fn, run_body, descr)
    return True


def dict_comprehension(I, it, node, g, env):
    """{key: value for key in S} over a set of names (or a lazily defined dict): the
    for-each-insert rule for a comprehension.  Returns None when the iterable is ordinary."""
    from .builtin_contracts import SDict, DictView
    from .interp import Raise, PathAbort, Unsupported, Env
    if isinstance(it, SSet):
        member_fn = lambda k: sym.member(k, it.term)
        src = None
    elif isinstance(it, DictView) and it.d.base is not None and isinstance(it.d.base, LazyBase) and not it.d.entries:
        member_fn = it.d.base.member_fn
        src = it
    else:
        return None
    if src is None:
        if not (isinstance(g.target, ast.Name) and isinstance(node.key, ast.Name) and node.key.id == g.target.id):
            raise Unsupported("dict comprehension over a set whose key is not the loop variable")
        bind = lambda e, key: e.vars.__setitem__(g.target.id, key)
    else:
        if src.kind != "items" or not (isinstance(g.target, ast.Tuple) and len(g.target.elts) == 2
                                       and all(isinstance(x, ast.Name) for x in g.target.elts)
                                       and isinstance(node.key, ast.Name) and node.key.id == g.target.elts[0].id):
            raise Unsupported("dict comprehension over a lazily defined dict of unsupported shape")
        kv, vv = g.target.elts[0].id, g.target.elts[1].id

        def bind(e, key):
            e.vars[kv] = key
            e.vars[vv] = src.d.base.get(I, key)
    I.ghost.setdefault("foreach_sites", []).append(f"{env.module.relpath}:{node.lineno}")

    def run_body(I2, key):
        e2 = Env(env.module, env, env.funcdef, env.frame_id)
        bind(e2, key)
        return I2.eval(node.value, e2)
    if I.path.branch(z3.Bool(I.path.fresh_name(f"dictcomp@{node.lineno}.some-element-raises")), f"dictcomp-raises@{node.lineno}"):
        kw = z3.Const(I.path.fresh_name(f"kw@{node.lineno}"), sym.Name)
        I.path.assume(member_fn(kw))
        I.ghost.setdefault("ambient_names", []).append(kw)
        run_body(I, SName(kw))
        raise PathAbort()
    d = SDict(base=LazyBase(member_fn, run_body, f"dictcomp@{node.lineno}"))
    I.heap_log.append(("alloc-dict", I.heap_log.note(d), None, I.where()))
    return d
