"""C09 replay battery: op1 at p1, then op2 at p2 on *shared* objects must answer like op2 on a
never-used structural copy.  Prints every disagreement; exit 1 if there is one."""
import itertools, sys


def make(kind):
    from smoothmath.expression import (Variable, Constant, Add, Minus, Negation, Multiply, Divide, Reciprocal, Power,
                                       NthPower, NthRoot, Exponential, Logarithm, Cosine, Sine)
    x, y = Variable("x"), Variable("y")
    shared = Add(Multiply(x, y), Constant(2))
    table = {
        "Add": lambda: Add(shared, x), "Minus": lambda: Minus(shared, y), "Negation": lambda: Negation(shared),
        "Multiply": lambda: Multiply(shared, x, y), "Divide": lambda: Divide(x, shared), "Reciprocal": lambda: Reciprocal(shared),
        "Power": lambda: Power(Add(NthPower(shared, 2), Constant(1)), y), "NthPower": lambda: NthPower(shared, 3),
        "NthRoot": lambda: NthRoot(shared, 3), "Exponential": lambda: Exponential(shared, base=2),
        "Logarithm": lambda: Logarithm(shared, base=3), "Cosine": lambda: Cosine(shared), "Sine": lambda: Sine(shared),
        "Variable": lambda: x, "Constant": lambda: Constant(4),
        "nested": lambda: Divide(Sine(Reciprocal(shared)), Add(NthRoot(Multiply(x, x, Constant(1)), 2), Logarithm(shared))),
    }
    return table[kind](), shared


def outcome(th):
    import smoothmath as sm
    try:
        r = th()
        return ("value", round(r, 9) if isinstance(r, float) else r)
    except sm.DomainError:
        return ("DomainError",)
    except sm.CoordinateMissing:
        return ("CoordinateMissing",)
    except Exception as e:
        return ("other", type(e).__name__)


def main():
    import smoothmath as sm
    points = [dict(x=1.5, y=2.0), dict(x=-2.0, y=1.0), dict(x=0.0, y=3.0), dict(x=2.0), dict(x=-1.0, y=-1.0)]
    ops = {
        "at": lambda e, p: e.at(sm.Point(**p)),
        "Partial.at": lambda e, p: sm.Partial(e, "x").at(sm.Point(**p)),
        "Located": lambda e, p: sm.LocatedDifferential(e, sm.Point(**p)).component("y"),
        "Differential.at": lambda e, p: sm.Differential(e).at(sm.Point(**p)).component("x"),
        "early.component_at": lambda e, p: sm.Differential(e, compute_early=True).component_at("x", sm.Point(**p)),
    }
    kinds = ["Add", "Minus", "Negation", "Multiply", "Divide", "Reciprocal", "Power", "NthPower", "NthRoot", "Exponential",
             "Logarithm", "Cosine", "Sine", "Variable", "Constant", "nested"]
    bad = 0
    for kind in kinds:
        for (n1, op1), (n2, op2) in itertools.product(ops.items(), ops.items()):
            for p1, p2 in itertools.permutations(points, 2):
                e, shared = make(kind)
                outcome(lambda: op1(e, p1))
                outcome(lambda: op1(shared, p1))
                got = outcome(lambda: op2(e, p2))
                fresh, _ = make(kind)
                want = outcome(lambda: op2(fresh, p2))
                if got != want:
                    bad += 1
                    if bad <= 8:
                        print(f"  FAIL {kind}: {n1} at {p1}; then {n2} at {p2}: got {got}, a fresh copy gives {want}")
    # three-step histories: a node evaluated at p, then an enclosing expression (or a derivative
    # of the node) at q, then the node at p again
    for kind in kinds:
        for p, q in itertools.permutations(points[:3], 2):
            e, shared = make(kind)
            fresh_e, fresh_shared = make(kind)
            for first, second, label in ((shared, e, "inner; outer; inner"), (e, shared, "outer; inner; outer")):
                outcome(lambda: first.at(sm.Point(**p)))
                outcome(lambda: second.at(sm.Point(**q)))
                outcome(lambda: sm.Derivative(first).at(sm.Point(**q)) if len(first._variable_names) <= 1 else sm.Partial(first, "x").at(sm.Point(**q)))
                got = outcome(lambda: first.at(sm.Point(**p)))
                want = outcome(lambda: (fresh_shared if first is shared else fresh_e).at(sm.Point(**p)))
                if got != want:
                    bad += 1
                    if bad <= 8:
                        print(f"  FAIL {kind}: {label}: at {p}, then at {q}, then at {p} again: got {got}, a fresh copy gives {want}")
    # the same derivative object queried at p, something else evaluated at q, the object at p again
    for kind in kinds:
        for p, q in itertools.permutations(points[:3], 2):
            for mk in (lambda e: sm.Partial(e, "x"), lambda e: sm.Partial(e, "x", compute_early=True),
                       lambda e: sm.Differential(e), lambda e: sm.Differential(e, compute_early=True)):
                e, shared = make(kind)
                obj = mk(e)
                ask = (lambda o, pt: o.at(sm.Point(**pt))) if isinstance(obj, sm.Partial) else (lambda o, pt: o.component_at("x", sm.Point(**pt)))
                outcome(lambda: ask(obj, p))
                outcome(lambda: e.at(sm.Point(**q)))
                outcome(lambda: shared.at(sm.Point(**q)))
                got = outcome(lambda: ask(obj, p))
                fe, _ = make(kind)
                want = outcome(lambda: ask(mk(fe), p))
                if got != want:
                    bad += 1
                    if bad <= 8:
                        print(f"  FAIL {kind}: {type(obj).__name__} asked at {p}, the expression evaluated at {q}, asked at {p} again: got {got}, fresh gives {want}")
    # building a larger expression on top of a node must not disturb the node
    from smoothmath.expression import Variable, Minus, Divide, Power, Add, Multiply, NthPower, Negation
    for outer in (Minus, Divide, Power, Add, Multiply):
        x, y = Variable("x"), Variable("y")
        u = NthPower(Negation(x), 2)
        before = (outcome(lambda: u.at(3.0)), outcome(lambda: sm.Derivative(u).at(3.0)), repr(u), sorted(u._variable_names))
        outer(u, y)
        outer(y, u)
        after = (outcome(lambda: u.at(3.0)), outcome(lambda: sm.Derivative(u).at(3.0)), repr(u), sorted(u._variable_names))
        if before != after:
            bad += 1
            if bad <= 8:
                print(f"  FAIL building {outer.__name__}(u, y) changed the operand u: before {before}, after {after}")
    # a Partial object queried before and after as_expression()
    for kind in kinds:
        for p in points:
            e, _ = make(kind)
            pa = sm.Partial(e, "x")
            a = outcome(lambda: pa.at(sm.Point(**p)))
            outcome(lambda: pa.as_expression())
            b = outcome(lambda: pa.at(sm.Point(**p)))
            if a != b:
                bad += 1
                if bad <= 8:
                    print(f"  FAIL {kind}: Partial.at {p} = {a}, after as_expression() = {b}")
    # the very same Point object handed in again after shared nodes were used elsewhere
    for kind in kinds:
        for p, q in itertools.permutations(points, 2):
            e, shared = make(kind)
            fresh_e, fresh_shared = make(kind)
            P, Q = sm.Point(**p), sm.Point(**q)
            for first, second, ff in ((shared, e, fresh_shared), (e, shared, fresh_e)):
                outcome(lambda: first.at(P))
                outcome(lambda: second.at(Q))
                got = outcome(lambda: first.at(P))
                want = outcome(lambda: ff.at(sm.Point(**p)))
                if got != want:
                    bad += 1
                    if bad <= 8:
                        print(f"  FAIL {kind}: at(P) with P={p}; another expression sharing nodes at {q}; at(P) with the same Point object: got {got}, fresh gives {want}")
    # operands that are distinct objects with equal structure; the same object at two points
    from smoothmath.expression import Constant, Exponential
    for outer in (Minus, Divide, Power, Add, Multiply):
        for a, b in itertools.permutations([1.0, 2.0, 0.5], 2):
            mk = lambda: outer(Add(Variable("x"), Constant(1)), Add(Variable("x"), Constant(1)))
            z = mk()
            outcome(lambda: z.at(a))
            got = (outcome(lambda: z.at(b)), outcome(lambda: sm.Derivative(z).at(b)))
            zz = mk()
            want = (outcome(lambda: zz.at(b)), outcome(lambda: sm.Derivative(zz).at(b)))
            if got != want:
                bad += 1
                if bad <= 8:
                    print(f"  FAIL {outer.__name__}(u, u') with u == u' built separately: at {a} then at {b}: got {got}, fresh gives {want}")
    # wide n-ary nodes (5 to 7 operands) with repeated, separately built, equal operands
    for outer in (Add, Multiply):
        for width in (5, 6, 7):
            def mk(width=width, outer=outer):
                ops = [Exponential(Add(Variable("x"), Constant(i % 2)), base=2) for i in range(width - 2)]
                return outer(*ops, Variable("x"), Constant(3))
            for a, b in itertools.permutations([1.0, 2.0, 0.5], 2):
                z = mk()
                outcome(lambda: z.at(a))
                outcome(lambda: sm.Derivative(z).at(a))
                got = (outcome(lambda: z.at(b)), outcome(lambda: sm.Derivative(z).at(b)),
                       outcome(lambda: sm.LocatedDifferential(z, sm.Point(x=b)).component("x")))
                zz = mk()
                want = (outcome(lambda: zz.at(b)), outcome(lambda: sm.Derivative(zz).at(b)),
                        outcome(lambda: sm.LocatedDifferential(zz, sm.Point(x=b)).component("x")))
                if got != want:
                    bad += 1
                    if bad <= 8:
                        print(f"  FAIL {outer.__name__} with {width} operands, some equal but distinct: at {a} then at {b}: got {got}, fresh gives {want}")
    # a call that raises part-way must leave nothing behind
    for kind in kinds:
        for p, q in itertools.permutations(points, 2):
            e, shared = make(kind)
            for op in (lambda o, pt: o.at(sm.Point(**pt)), lambda o, pt: sm.Partial(o, "x").at(sm.Point(**pt))):
                first = outcome(lambda: op(e, p))
                if first[0] == "value":
                    continue
                got = outcome(lambda: e.at(sm.Point(**q)))
                fe, _ = make(kind)
                want = outcome(lambda: fe.at(sm.Point(**q)))
                if got != want:
                    bad += 1
                    if bad <= 8:
                        print(f"  FAIL {kind}: a call at {p} raised {first}; then at {q}: got {got}, fresh gives {want}")
    print(f"history battery: {bad} disagreement(s)")
    return 1 if bad else 0


if __name__ == "__main__":
    sys.exit(main())
