"""z3 vocabulary shared by the interpreter, the builtin contracts and the spec tables."""
from __future__ import annotations
import z3

CLASS_NAMES = ["Add", "Constant", "Cosine", "Divide", "Exponential", "Logarithm", "Minus",
               "Multiply", "Negation", "NthPower", "NthRoot", "Power", "Reciprocal", "Sine",
               "Variable"]

Name = z3.DeclareSort("Name")
ClsSort, _cls_vals = z3.EnumSort("Cls", CLASS_NAMES + ["Foreign"])
CLS = dict(zip(CLASS_NAMES + ["Foreign"], _cls_vals))
NameSet = z3.ArraySort(Name, z3.BoolSort())

R = z3.RealSort()
I = z3.IntSort()
B = z3.BoolSort()

exp = z3.Function("exp", R, R)
ln = z3.Function("ln", R, R)
sin = z3.Function("sin", R, R)
cos = z3.Function("cos", R, R)
ipow = z3.Function("ipow", R, I, R)      # x ** n for integer n >= 0
root = z3.Function("root", R, I, R)      # sign-preserving real n-th root
card = z3.Function("card", NameSet, I)   # cardinality of a finite set of names
the = z3.Function("the", NameSet, Name)  # the element of a singleton
E = z3.Real("E")                          # math.e
strname = z3.Function("strname", I, Name)  # injection of string literals (by index) into names

TRANSCENDENTALS = {"exp", "ln", "sin", "cos", "ipow", "root"}


def empty_set():
    return z3.K(Name, z3.BoolVal(False))


def singleton(n):
    return z3.Store(empty_set(), n, z3.BoolVal(True))


def union(a, b):
    return z3.SetUnion(a, b)


def member(n, s):
    return z3.Select(s, n)


def subset(a, b):
    return z3.IsSubset(a, b)


def to_real(t):
    if z3.is_int(t):
        if z3.is_int_value(t):
            return z3.RealVal(t.as_long())
        return z3.ToReal(t)
    return t


def is_concrete_num(t):
    return z3.is_int_value(t) or z3.is_rational_value(t)


def conj(xs):
    xs = [x for x in xs if not z3.is_true(x)]
    if not xs:
        return z3.BoolVal(True)
    if len(xs) == 1:
        return xs[0]
    return z3.And(*xs)


_literal_ids = {}


def literal_name(s: str):
    """A Name term for a Python string literal; distinct literals give distinct names."""
    if s not in _literal_ids:
        _literal_ids[s] = len(_literal_ids)
    return strname(z3.IntVal(_literal_ids[s]))


def literal_of_name(term):
    if z3.is_app(term) and term.decl().name() == "strname" and z3.is_int_value(term.arg(0)):
        k = term.arg(0).as_long()
        for s, i in _literal_ids.items():
            if i == k:
                return s
    return None


def strname_injective_axioms():
    # distinct literal indices -> distinct names (ground instances of injectivity)
    ids = sorted(_literal_ids.values())
    out = []
    for a in range(len(ids)):
        for b in range(a + 1, len(ids)):
            out.append(strname(z3.IntVal(ids[a])) != strname(z3.IntVal(ids[b])))
    return out
