"""Counter-model replay (filled in below)."""
import os, json
from .engine import VERIF


def write_and_run(prop, obl, prog):
    os.makedirs(os.path.join(VERIF, "replays"), exist_ok=True)
    safe = obl["name"].replace("/", "__").replace("[", "_").replace("]", "_").replace("@", "_at_").replace("(", "_").replace(")", "_").replace("=", "")
    path = os.path.join(VERIF, "replays", f"{prop}__{safe}.json")
    with open(path, "w") as fh:
        json.dump({"property": prop, "obligation": obl}, fh, indent=1, default=str)
    return path, False


def run_file(path):
    print(open(path).read())
    return 0
