"""Counter-model -> replay scenario (worker side) and replay execution (main process)."""
from __future__ import annotations
import json, os, subprocess, sys
from fractions import Fraction
import z3
from . import sym, spec
from .values import *
from .engine import VERIF
from .loader import REPO_SRC


# ---------------------------------------------------------------------------- model evaluation

def mval(model, term):
    v = model.eval(term, model_completion=True)
    if z3.is_int_value(v):
        return v.as_long()
    if z3.is_rational_value(v):
        fr = v.as_fraction()
        return fr.numerator if fr.denominator == 1 else [fr.numerator, fr.denominator]
    if z3.is_algebraic_value(v):
        return ["approx", v.approx(30).as_decimal(30)]
    if z3.is_true(v):
        return True
    if z3.is_false(v):
        return False
    return str(v)


def mnum(model, term):
    v = mval(model, term)
    if isinstance(v, list):
        if v[0] == "approx":
            return float(str(v[1]).rstrip("?"))
        return Fraction(v[0], v[1])
    if isinstance(v, bool) or not isinstance(v, int):
        return None
    return Fraction(v)


def jnum(fr):
    if isinstance(fr, float):
        return fr
    if fr.denominator == 1:
        return int(fr.numerator)
    return [fr.numerator, fr.denominator]


class Concretizer:
    def __init__(self, I, model, pt, names):
        self.I = I
        self.m = model
        self.pt = pt
        self.name_map = {}
        self.names = list(names)
        self.ok = True
        self.notes = []
        self.extra_names = []
        for i, n in enumerate(self.names):
            self.name_str(n, hint=str(n) if z3.is_const(n) and n.decl().kind() == z3.Z3_OP_UNINTERPRETED else None)

    def name_str(self, term, hint=None):
        lit = sym.literal_of_name(term)
        v = self.m.eval(term, model_completion=True)
        key = str(v)
        if key in self.name_map:
            return self.name_map[key]
        if lit is None:
            # the model may identify the name with one of the string literals of the code
            for s_, _i in list(sym._literal_ids.items()):
                if str(self.m.eval(sym.literal_name(s_), model_completion=True)) == key:
                    lit = s_
                    break
        if lit is not None:
            s = lit
        else:
            base = hint if hint and hint.isidentifier() else f"v{len(self.name_map)}"
            s = base
            while s in self.name_map.values():
                s = s + "_"
            s = self.respect_externals(term, v, s)
        self.name_map[key] = s
        return s

    NAME_POOL = ["\u00b5", "\ufb01", "\uff41", "\u017f", "\u00aa", "\u212a", "\u2167", "A", "Zz", "\u00df", "\u0130", "a1", "_x"]

    def respect_externals(self, term, v, default):
        """Names are free to choose: pick one on which the real standard-library functions
        behave the way the counter-model says the uninterpreted ones do (moved / not moved)."""
        ext = self.I.ghost.get("weak_externals", {})
        if not ext:
            return default
        import importlib
        want = []
        for tag, (f, real) in ext.items():
            moved = str(self.m.eval(f(term), model_completion=True)) != str(v)
            try:
                fn = getattr(importlib.import_module(real[0]), real[1])
            except Exception:
                continue
            want.append((lambda c, fn=fn, pre=real[2]: fn(*pre, c), moved))
        for cand in [default] + self.NAME_POOL:
            if cand in self.name_map.values():
                continue
            try:
                if all((fn(cand) != cand) == moved for fn, moved in want):
                    return cand
            except Exception:
                continue
        return default

    def point(self):
        out = {}
        if self.pt is None:
            return out
        for n in list(self.names):
            if mval(self.m, spec.point_has(self.I, self.pt, n)) is True or not getattr(self, "respect_missing", True):
                v = mnum(self.m, spec.point_val(self.I, self.pt, n))
                out[self.name_str(n)] = jnum(v if v is not None else Fraction(1))
        return out

    def number(self, v):
        if isinstance(v, SNum):
            fr = mnum(self.m, v.term)
            if fr is None:
                self.ok = False
                return 0
            pyint = v.pyint if isinstance(v.pyint, bool) else (mval(self.m, v.pyint) is True)
            if isinstance(fr, float):
                return fr
            if pyint and fr.denominator == 1:
                return int(fr)
            return jnum(fr) if fr.denominator != 1 else float(fr)
        return v

    def tree(self, o, x=None):
        if o.cls is not None and o.kind != "foreign" and "_variable_names" in o.fields or (o.cls is not None and o.fields):
            c = o.cls.name
            f = o.fields
            if c == "Constant":
                return ["Constant", self.number(f["value"])]
            if c == "Variable":
                nm = f["name"]
                return ["Variable", nm if isinstance(nm, str) else self.name_str(nm.term)]
            kids = [self.tree(ch, x) for ch in spec.children(o)]
            if c in ("NthPower", "NthRoot", "Exponential", "Logarithm"):
                return [c] + kids + [self.number(f["_parameter"])]
            return [c] + kids
        return self.leaf(o, x)

    def excluded_classes(self, o):
        """Classes the path condition rules out for an unknown-class leaf (isinstance tests
        that failed on this path)."""
        out = set()
        tag = o.ghost.get("tag")
        if tag is None:
            return out
        for f in self.I.path.pc:
            for g in (f.children() if z3.is_and(f) else [f]):
                if z3.is_not(g) and z3.is_eq(g.arg(0)):
                    a, b = g.arg(0).arg(0), g.arg(0).arg(1)
                    if a.get_id() == tag.get_id():
                        out.add(str(b))
                    elif b.get_id() == tag.get_id():
                        out.add(str(a))
        return out

    def tree_from_T(self, term):
        """Concrete tree from the model value of a structural (datatype) term."""
        v = self.m.eval(term, model_completion=True)
        return self._dt(v)

    def _dt(self, v):
        name = v.decl().name()
        if name == "Constant":
            fr = mnum(self.m, v.arg(0))
            return ["Constant", jnum(fr) if not isinstance(fr, float) else fr]
        if name == "Variable":
            return ["Variable", self.name_str(v.arg(0))]
        if name in ("Add", "Multiply"):
            items = []
            l = v.arg(0)
            while l.decl().name() == "cons":
                items.append(self._dt(l.arg(0)))
                l = l.arg(1)
            return [name] + items
        if name in ("NthPower", "NthRoot"):
            n = mnum(self.m, v.arg(1))
            return [name, self._dt(v.arg(0)), max(1, int(n))]
        if name in ("Exponential", "Logarithm"):
            b = mnum(self.m, v.arg(1))
            b = float(b)
            if b <= 0 or (name == "Logarithm" and b == 1):
                b = 2.0
            return [name, self._dt(v.arg(0)), b]
        return [name] + [self._dt(v.arg(i)) for i in range(v.num_args())]

    def value(self, v, x=None):
        """JSON encoding of an arbitrary argument value."""
        if isinstance(v, Obj):
            if v.kind == "foreign":
                return {"foreign": True}
            if v.cls is not None and v.cls.name == "Point":
                return {"point": self.point_of(v)}
            return {"tree": self.tree(v, x)}
        if isinstance(v, SNum):
            return {"num": self.number(v)}
        if isinstance(v, SName):
            return {"str": self.name_str(v.term)}
        if v is None:
            return {"none": True}
        if isinstance(v, (int, float, str)):
            return {"num": v} if not isinstance(v, str) else {"str": v}
        return {"repr": repr(v)}

    def array_indices(self, arr):
        """Index values occurring in the model value of an array (Store chains)."""
        out = []
        v = self.m.eval(arr, model_completion=True)
        stack = [v]
        while stack:
            t = stack.pop()
            if z3.is_app(t) and t.decl().kind() == z3.Z3_OP_STORE:
                out.append(t.arg(1))
                stack.append(t.arg(0))
            elif z3.is_app(t) and t.decl().kind() == z3.Z3_OP_AS_ARRAY:
                fi = self.m[t.decl().params()[0]] if False else None
        return out

    def point_of(self, pt):
        d = pt.fields["_coordinates"]
        if d.base is not None and hasattr(d.base, "present"):
            for w in self.array_indices(d.base.present) + self.array_indices(d.base.vals):
                if all(w.get_id() != e.get_id() for e in self.extra_names):
                    self.extra_names.append(w)
        out = {}
        for key, val in d.entries:
            out[self.name_str(self.I.bi.key_term(key))] = self.number(val)
        if d.base is not None and hasattr(d.base, "present"):
            # names of interest: every name term the concretizer has seen so far
            for n in list(self.names):
                if mval(self.m, z3.Select(d.base.present, n)) is True:
                    out[self.name_str(n)] = jnum(mnum(self.m, z3.Select(d.base.vals, n)) or Fraction(0))
            # plus the model's own witnesses for a difference between two points
            for w in self.extra_names:
                if mval(self.m, z3.Select(d.base.present, w)) is True:
                    out[self.name_str(w)] = jnum(mnum(self.m, z3.Select(d.base.vals, w)) or Fraction(0))
        return out

    def leaf(self, o, x):
        if "T" in o.ghost and self.pt is None:
            return self.tree_from_T(o.ghost["T"])
        t = self.leaf0(o, x)
        ex = self.excluded_classes(o)
        if t[0] not in ex:
            return t
        for w in ("Minus", "Divide", "NthPower", "NthRoot", "Add", "Multiply"):
            if w in ex:
                continue
            if w == "Minus":
                return ["Minus", t, ["Constant", 0]]
            if w == "Divide":
                return ["Divide", t, ["Constant", 1]]
            if w in ("NthPower", "NthRoot"):
                return [w, t, 1]
            if w == "Add":
                return ["Add", t]
            return ["Multiply", t]
        self.notes.append(f"{o.name}: no admissible class for the leaf")
        return t

    def leaf0(self, o, x):
        """A concrete tree with the child's denotation in the model: defined or not, value,
        partial with respect to x, coordinate missing or not."""
        I, m, pt = self.I, self.m, self.pt
        if pt is None:
            return ["Constant", 1]
        d = spec.den(I, o, pt)
        D = mval(m, d.D) is True
        S = mval(m, spec.supplies(I, o, pt)) is True
        V = mnum(m, d.V)
        if V is None:
            V = Fraction(1)
        pres = self.point()
        xs = self.name_str(x) if x is not None else None
        dv = mnum(m, d.dV(x)) if x is not None else Fraction(0)
        if dv is None:
            dv = Fraction(0)
        if not S and getattr(self, "respect_missing", True):
            self.notes.append(f"{o.name}: coordinate missing")
            return ["Add", ["Constant", jnum(V) if not isinstance(V, float) else V], ["Variable", "zz_missing"]]
        if not D:
            if xs in pres:
                x0 = pres[xs]
                return ["Reciprocal", ["Minus", ["Variable", xs], ["Constant", x0]]]
            return ["Reciprocal", ["Constant", 0]]
        in_vars = x is not None and mval(m, sym.member(x, spec.vars_of(I, o))) is True
        if dv == 0 and not in_vars:
            return ["Constant", self._c(V)]
        if xs not in pres:
            # the child mentions x although the point lacks it: contradiction with S
            self.ok = False
            return ["Constant", self._c(V)]
        x0 = Fraction(*pres[xs]) if isinstance(pres[xs], list) else Fraction(pres[xs])
        if isinstance(V, float) or isinstance(dv, float):
            V, dv, x0 = float(V), float(dv), float(x0)
        return ["Add", ["Multiply", ["Constant", self._c(dv)], ["Variable", xs]], ["Constant", self._c(V - dv * x0)]]

    def _c(self, fr):
        if isinstance(fr, float):
            return fr
        return jnum(fr) if fr.denominator != 1 else int(fr)


def build_scenario(I, res, model, obligation_name=""):
    """Uses the replay descriptor the family left in I.ghost['replay']."""
    rp = I.ghost.get("replay")
    if rp is None or model is None:
        return None
    try:
        names = list(I.ghost.get("ambient_names", []))
        x = rp.get("x")
        if callable(x):
            x = x()
        if callable(rp.get("pt")):
            rp = dict(rp, pt=rp["pt"]())
        if x is not None and all(x is not n for n in names):
            names.append(x)
        pt = rp.get("pt")
        cz = Concretizer(I, model, pt, names)
        # whether a coordinate is missing only matters for the obligations that talk about it
        cz.respect_missing = any(t in obligation_name for t in ("CoordinateMissing", "=>S", "notS", "number-"))
        sc = {"kind": rp["kind"]}
        if rp.get("root") is not None:
            sc["tree"] = cz.tree(rp["root"], x)
        sc["point"] = cz.point()
        if x is not None:
            sc["x"] = cz.name_str(x)
        if rp.get("number") is not None:
            sc["number"] = cz.number(rp["number"])
        for k, v in rp.get("extra", {}).items():
            sc[k] = v(cz) if callable(v) else v
        sc["notes"] = cz.notes
        if not cz.ok:
            sc["inconsistent_model"] = True
        return sc
    except Exception as e:          # a scenario is best effort; the obligation failure stands
        return {"kind": "none", "error": f"{type(e).__name__}: {e}"}


# ---------------------------------------------------------------------------- main-process side

_BATTERY_CACHE = {}


def _safe(name):
    out = []
    for ch in name:
        out.append(ch if ch.isalnum() or ch in "._-" else "_")
    return "".join(out)


def write_and_run(prop, obl, prog):
    os.makedirs(os.path.join(VERIF, "replays"), exist_ok=True)
    path = os.path.join(VERIF, "replays", f"{prop}__{_safe(obl['name'])}.json")
    doc = {"property": prop, "obligation": {k: v for k, v in obl.items() if k != "scenario"},
           "scenario": obl.get("scenario"),
           "how_to_run": f"cd /verif && ./check replay {path}"}
    with open(path, "w") as fh:
        json.dump(doc, fh, indent=1, default=str)
    kind = (obl.get("scenario") or {}).get("kind")
    if kind in _BATTERY_CACHE:
        code, out = _BATTERY_CACHE[kind]          # the batteries do not depend on the obligation
    else:
        code, out = _run(path)
        if kind in ("history_battery", "order_battery", "name_battery"):
            _BATTERY_CACHE[kind] = (code, out)
    with open(path[:-5] + ".out", "w") as fh:
        fh.write(out)
    return path, code == 1


def write_only(prop, obl):
    os.makedirs(os.path.join(VERIF, "replays"), exist_ok=True)
    path = os.path.join(VERIF, "replays", f"{prop}__{_safe(obl['name'])}.json")
    doc = {"property": prop, "obligation": {k: v for k, v in obl.items() if k != "scenario"},
           "scenario": obl.get("scenario"), "note": "not replayed in this run (replay budget); run it with the command below",
           "how_to_run": f"cd /verif && ./check replay {path}"}
    with open(path, "w") as fh:
        json.dump(doc, fh, indent=1, default=str)
    return path


def _run(path):
    env = dict(os.environ)
    env["PYTHONPATH"] = REPO_SRC + os.pathsep + VERIF
    try:
        p = subprocess.run(["python3-vt", os.path.join(VERIF, "pyvc", "replaylib.py"), path],
                           capture_output=True, text=True, env=env, timeout=120)
        return p.returncode, p.stdout + p.stderr
    except subprocess.TimeoutExpired:
        return 0, "replay timed out"


def run_file(path):
    code, out = _run(path)
    print(out)
    return code
