"""C18 replay battery: prints a digest of many answers of the real library; the replay runs it
under several PYTHONHASHSEED values and coordinate / creation orders and compares digests."""
import hashlib, itertools, os, sys


def main():
    order = os.environ.get("BATTERY_ORDER", "0")
    import smoothmath as sm
    from smoothmath.expression import (Variable, Constant, Add, Minus, Negation, Multiply, Divide, Reciprocal, Power,
                                       NthPower, NthRoot, Exponential, Logarithm, Cosine, Sine)
    names = ["x", "y", "z", "alpha", "beta", "w1", "w2", "long_variable_name"]
    if order == "1":
        vs = {n: Variable(n) for n in reversed(names)}       # creation order of variables
    else:
        vs = {n: Variable(n) for n in names}
    x, y, z, a, b, w1, w2, lv = (vs[n] for n in names)
    exprs = [
        Add(x, y, z, a, b, w1, w2, lv),
        Multiply(x, y, z, a, b),
        Add(Multiply(x, y), Multiply(z, a), Multiply(b, w1), Multiply(w2, lv)),
        Divide(Add(x, Multiply(Constant(2), y)), Add(Constant(3), NthPower(z, 2))),
        Multiply(Exponential(x), Exponential(y), Exponential(z, base=2), NthPower(a, 2), NthPower(b, 2)),
        Add(Logarithm(Add(NthPower(x, 2), Constant(1))), Logarithm(Add(NthPower(y, 2), Constant(2))), Sine(Multiply(z, w1)), Cosine(Minus(a, b))),
        Power(Add(NthPower(x, 2), Constant(1)), Multiply(y, z)),
        Minus(Multiply(x, y, z), Divide(a, Add(Constant(5), NthPower(b, 2)))),
        # rounding-sensitive sums: the order of accumulation is visible in the last bits
        Add(Multiply(Constant(1e16), x), Multiply(Constant(-1e16), x), x, Multiply(Constant(0.1), x), Multiply(Constant(1e-3), x), y),
        Add(Multiply(x, Constant(1e15)), Multiply(y, x), Multiply(x, Constant(-1e15)), Multiply(x, Constant(1/3)), Sine(x), Multiply(z, x)),
        # repeated and distinct contributions to one variable
        Add(Multiply(x, x), Sine(x), Exponential(x), Multiply(x, x), Cosine(x), Logarithm(Add(NthPower(x, 2), Constant(1)))),
        Multiply(Add(x, y), Add(x, y), Sine(x), Add(x, y)),
    ]
    vals = {"x": 1.25, "y": -0.5, "z": 2.0, "alpha": 0.75, "beta": 3.5, "w1": -1.5, "w2": 0.125, "long_variable_name": 4.0}
    items = list(vals.items())
    if order == "1":
        items.reverse()                                     # spelling order of coordinates
    p = sm.Point(**dict(items))
    out = []
    for e in exprs:
        out.append(repr(e.at(p)))
        out.append(repr(e._normalize()))
        ld = sm.LocatedDifferential(e, p)
        de = sm.Differential(e, compute_early=True)
        dl = sm.Differential(e)
        for n in names:
            out.append(repr(sm.Partial(e, n).at(p)))
            out.append(repr(ld.component(n)))
            out.append(repr(de.component_at(n, p)))
            out.append(repr(dl.at(p).component(n)))
            out.append(repr(sm.Partial(e, n).as_expression()))
            out.append(repr(de.component(n).as_expression()))
        out.append(repr(hash(p) == hash(sm.Point(**dict(reversed(items))))))
    print(hashlib.sha256("\n".join(out).encode()).hexdigest())


if __name__ == "__main__":
    main()
