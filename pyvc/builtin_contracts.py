"""Builtin contracts: the trusted semantics of Python builtins / stdlib the library uses.

Every precondition of a builtin (non-zero divisor, positive argument of a real power or
logarithm, ...) is emitted as a proof obligation through Path.require: a violated
precondition is exactly an escaping ZeroDivisionError / ValueError / complex result.
"""
from __future__ import annotations
import ast
import re as _re
import z3
from . import sym
from .values import *


class SDict:
    """A dict: ordered entries [(key, value)] over an optional symbolic base map.

    Keys are concrete strs, SName, or numbers.  base, when present, is an object with
    get(interp, key) -> value-or-None (forking as needed)."""

    def __init__(self, entries=None, base=None):
        self.entries = list(entries or [])
        self.base = base
        self.alloc_frame = None

    def __repr__(self):
        return f"SDict({self.entries}, base={self.base})"


class NumBase:
    """Symbolic Name->number map: presence array + value array."""
    def __init__(self, present, vals):
        self.present = present
        self.vals = vals

    def get(self, interp, key):
        k = interp.bi.key_term(key)
        if k is None or k.sort() != sym.Name:
            return None
        if interp.path.branch(z3.Select(self.present, k), "key-present"):
            return SNum(z3.Select(self.vals, k), z3.Bool(interp.path.fresh_name("coord_is_int")))
        return None


class ViewBase:
    """A Name->number dict known only through `.get(k, 0)`: view(k) is that value.
    (Observationally exact for readers that use get-with-default-0, which is the only way
    the numeric accumulator is read; anything else on such a dict is unsupported.)"""
    def __init__(self, view_fn, tag):
        self.view_fn = view_fn
        self.tag = tag

    def get(self, I, key):
        raise Unsupported("a get-with-default-0 view was read in another way")

    def __repr__(self):
        return f"ViewBase({self.tag})"


class ObjSetList(list):
    """A set of expression objects, kept as the list of its (pairwise unequal) elements."""
    pass


class ArbitraryBase:
    """Content of a module-level mutable container: whatever earlier calls left there."""
    def __init__(self, tag):
        self.tag = tag

    def get(self, I, key):
        p = I.path
        if p.branch(z3.Bool(p.fresh_name(f"{self.tag}.has-entry")), f"global-state({self.tag})"):
            return I.contracts.make_child(I, p.fresh_name(f"{self.tag}.entry"))
        return None

    def __repr__(self):
        return f"ArbitraryBase({self.tag})"


class RegexObj:
    def __init__(self, pattern):
        self.pattern = pattern


class Builtins:
    def __init__(self, interp):
        self.I = interp
        self.allword = z3.Function("allword", sym.Name, sym.B)
        self.nonempty = z3.Function("nonempty", sym.Name, sym.B)
        self.hashnum = z3.Function("hash_num", sym.R, sym.I)
        self.mutations = []

    @property
    def path(self):
        return self.I.path

    # ------------------------------------------------------------------ exceptions
    def make_exc(self, name, msg=""):
        o = Obj(BuiltinClass(name, exception=True), self.path.fresh_name("exc"), kind="exception")
        o.fields["args"] = [msg]
        return o

    def exc_matches(self, exc, handler):
        if isinstance(handler, tuple):
            return any(self.exc_matches(exc, h) for h in handler)
        if not isinstance(handler, ClassRef):
            raise Unsupported(f"except {handler!r}")
        hc = handler.cls
        if isinstance(hc, BuiltinClass):
            if hc.name in ("Exception", "BaseException"):
                return True
            return isinstance(exc.cls, BuiltinClass) and exc.cls.name == hc.name
        if isinstance(exc.cls, BuiltinClass):
            return False
        return exc.cls.is_subclass_of(hc)

    # ------------------------------------------------------------------ names
    def key_term(self, k):
        if isinstance(k, SName):
            return k.term
        if isinstance(k, str):
            t = sym.literal_name(k)
            return t
        if is_num(k):
            return real_term(k)
        return None

    def name_nonempty(self, n):
        return self.nonempty(n.term)

    def literal_facts(self):
        """Ground facts about every string literal used as a name so far."""
        out = []
        for s in list(sym._literal_ids):
            t = sym.literal_name(s)
            out.append(self.nonempty(t) == z3.BoolVal(len(s) > 0))
            out.append(self.allword(t) == z3.BoolVal(_re.match(r"\A\w*\Z", s) is not None))
        return out + sym.strname_injective_axioms()

    def arbitrary_global_container(self, mod, node):
        d = SDict(base=ArbitraryBase(f"global@{mod.short}:{node.lineno}"))
        return d

    # ------------------------------------------------------------------ builtins table
    def lookup_builtin(self, name):
        table = {
            "isinstance": self.b_isinstance, "len": self.b_len,
            "sum": self.b_sum, "any": self.b_any, "all": self.b_all,
            "enumerate": self.b_enumerate, "zip": self.b_zip, "range": self.b_range,
            "round": self.b_round, "hash": self.b_hash, "sorted": self.b_sorted, "id": self.b_id,
            "max": lambda a, k: self.b_minmax(a, k, True), "min": lambda a, k: self.b_minmax(a, k, False),
            "abs": self.b_abs, "divmod": self.b_divmod, "pow": lambda a, k: self.binop(ast.Pow(), a[0], a[1]),
            "repr": self.b_str,
        }
        if name in table:
            return Builtin(name, table[name])
        if name in ("Exception", "ValueError", "TypeError", "KeyError", "ZeroDivisionError",
                    "AttributeError", "BaseException"):
            return ClassRef(BuiltinClass(name, exception=True))
        if name in ("int", "float", "str", "bool", "type", "object", "list", "tuple", "dict", "set"):
            return ClassRef(BuiltinClass(name))
        if name in ("True", "False", "None"):
            return {"True": True, "False": False, "None": None}[name]
        raise Unsupported(f"unknown global name {name}")

    def external_name(self, dotted, attr):
        return Opaque(f"{dotted}.{attr}")

    def ext_module_attr(self, modname, attr):
        if modname == "math":
            if attr == "e":
                return SNum(sym.E, False)
            if attr == "isclose":
                return Builtin("math.isclose", self.m_isclose)
            if attr in ("isfinite", "isnan", "isinf"):
                # numbers of the model are finite reals (assumption: finite numeric content)
                def fin(a, k, attr=attr):
                    if not is_num(a[0]):
                        raise Raise(self.make_exc("TypeError", f"math.{attr}: must be real number"), self.I.where())
                    return attr == "isfinite"
                return Builtin("math." + attr, fin)
            if attr in ("floor", "ceil"):
                def fl(a, k, attr=attr):
                    v = a[0]
                    if not is_num(v):
                        raise Raise(self.make_exc("TypeError", f"math.{attr}: must be real number"), self.I.where())
                    if not isinstance(v, SNum):
                        import math
                        return getattr(math, attr)(v)
                    x = real_term(v)
                    r = self.path.fresh(attr, sym.I)
                    if attr == "floor":
                        self.path.assume(z3.And(z3.ToReal(r) <= x, x < z3.ToReal(r) + 1))
                    else:
                        self.path.assume(z3.And(z3.ToReal(r) - 1 < x, x <= z3.ToReal(r)))
                    return SNum(r, True)
                return Builtin("math." + attr, fl)
            if attr == "lcm":
                def lcm(a, k):
                    # lcm(m, n) * gcd(m, n) = m * n on positive ints (gcd as modelled below)
                    g = self.m_gcd(a, k)
                    if isinstance(g, int):
                        import math
                        return math.lcm(num_term(a[0]).as_long(), num_term(a[1]).as_long())
                    m, n = num_term(a[0]), num_term(a[1])
                    l = self.path.fresh("lcm", sym.I)
                    self.path.assume(z3.And(l * g.term == m * n, l >= m, l >= n, l <= m * n))
                    return SNum(l, True)
                return Builtin("math.lcm", lcm)
            fns = {"sqrt": self.m_sqrt, "cbrt": self.m_cbrt, "log": self.m_log, "cos": self.m_cos,
                   "sin": self.m_sin, "gcd": self.m_gcd}
            if attr in fns:
                return Builtin("math." + attr, fns[attr])
        if modname == "unicodedata" and attr == "normalize":
            def norm(a, k):
                if len(a) != 2 or not isinstance(a[0], str):
                    raise Unsupported("unicodedata.normalize with a symbolic form")
                return self.ext_name_function(f"unicodedata.normalize[{a[0]}]", ["unicodedata", "normalize", [a[0]]], a[1])
            return Builtin("unicodedata.normalize", norm)
        if modname == "re" and attr == "compile":
            return Builtin("re.compile", lambda a, k: RegexObj(a[0]))
        if modname == "logging" and attr in ("warning", "info", "debug", "error"):
            return Builtin("logging." + attr, lambda a, k: None)
        raise Unsupported(f"external {modname}.{attr}")

    def ext_name_function(self, tag, real, v):
        """A pure str -> str function of the standard library (normalisation, case mapping ...)
        applied to a symbolic name: an uninterpreted function Name -> Name.  Nothing is known
        about it, so a proof that goes through is sound, while a refutation may rest on a value
        the real function never returns: such obligations are marked weak and count as a
        violation only when the replay on the real code reproduces them."""
        I = self.I
        if isinstance(v, str):
            v = SName(sym.literal_name(v))
        if not isinstance(v, SName):
            raise Unsupported(f"external {tag} of {v!r}")
        f = z3.Function(f"ext[{tag}]", sym.Name, sym.Name)
        I.ghost.setdefault("weak_externals", {})[tag] = (f, real)
        return SName(f(v.term))

    def call_builtin_class(self, cls, args, kwargs):
        fns = {"float": self.b_float, "str": self.b_str, "list": self.b_list, "tuple": self.b_tuple,
               "dict": self.b_dict, "set": self.b_set, "int": self.b_int, "bool": lambda a, k: self.I.truth(a[0], "bool()") if a else False}
        if cls.name in fns:
            return fns[cls.name](args, kwargs)
        raise Unsupported(f"call of builtin class {cls.name}")

    # ------------------------------------------------------------------ value attributes
    def value_attr(self, o, attr):
        I = self.I
        if attr == "__class__" and (o is None or isinstance(o, (bool, int, float, str, SNum, SName, SStr, list, tuple, SDict, SSet))):
            if o is None:
                return ClassRef(BuiltinClass("NoneType"))
            if isinstance(o, SNum):
                p = o.pyint
                if isinstance(p, bool):
                    return ClassRef(BuiltinClass("int" if p else "float"))
                return ClassRef(BuiltinClass("int" if self.path.branch(p, "num-is-int") else "float"))
            nm = {bool: "bool", int: "int", float: "float", str: "str", SName: "str", SStr: "str", list: "list",
                  tuple: "tuple", SDict: "dict", SSet: "set"}[type(o)]
            return ClassRef(BuiltinClass(nm))
        from . import gmode as _gm
        if isinstance(o, _gm.SList) and attr == "append":
            def sapp(a, k):
                # the list object is updated in place (aliases see it): one more element at the end
                I.heap_log.append(("mutate-list", I.heap_log.note(o), attr, I.where()))
                n0, elem0, item = o.length, o.elem, a[0]
                o.elem = lambda u, n0=n0, elem0=elem0, item=item: _gm.cond_value(u == n0, item, elem0(u))
                o.length = z3.simplify(n0 + 1)
            return Builtin("list.append", sapp)
        if isinstance(o, list) and not isinstance(o, GeneratorList):
            if attr == "append":
                def app(a, k):
                    I.heap_log.append(("mutate-list", I.heap_log.note(o), attr, I.where()))
                    o.append(a[0])
                return Builtin("list.append", app)
            if attr == "extend":
                def ext(a, k):
                    I.heap_log.append(("mutate-list", I.heap_log.note(o), attr, I.where()))
                    o.extend(list(self.iterate(a[0])))
                return Builtin("list.extend", ext)
        if isinstance(o, SDict):
            if attr == "get":
                return Builtin("dict.get", lambda a, k: self.dict_get(o, a[0], a[1] if len(a) > 1 else None))
            if attr == "items":
                return Builtin("dict.items", lambda a, k: DictView(o, "items"))
            if attr == "values":
                return Builtin("dict.values", lambda a, k: DictView(o, "values"))
            if attr == "keys":
                return Builtin("dict.keys", lambda a, k: DictView(o, "keys"))
        if isinstance(o, SSet):
            if attr in ("issubset", "issuperset", "isdisjoint"):
                def rel(a, k):
                    b = a[0]
                    if not isinstance(b, SSet):
                        raise Unsupported(f"{attr} with {b!r}")
                    if attr == "issubset":
                        return sym.subset(o.term, b.term)
                    if attr == "issuperset":
                        return sym.subset(b.term, o.term)
                    return z3.SetIntersect(o.term, b.term) == sym.empty_set()
                return Builtin("set." + attr, rel)
            if attr in ("update", "add"):
                def upd(a, k):
                    self.I.heap_log.append(("mutate-set", self.I.heap_log.note(o), attr, self.I.where()))
                    for s_ in a:
                        if attr == "add":
                            o.term = z3.Store(o.term, self.key_term(s_), z3.BoolVal(True))
                        elif isinstance(s_, SSet):
                            o.term = sym.union(o.term, s_.term)
                        else:
                            raise Unsupported(f"set.update with {s_!r}")
                    return None
                return Builtin("set." + attr, upd)
            if attr == "union":
                def un(a, k):
                    from . import gmode, gexec
                    if len(a) == 1 and isinstance(a[0], gmode.StarArgs):
                        return gexec.union_star(self.I, o, a[0].slist)
                    t = o.term
                    for s in a:
                        if not isinstance(s, SSet):
                            raise Unsupported(f"union with {s!r}")
                        t = sym.union(t, s.term)
                    return self.fresh_set(t)
                return Builtin("set.union", un)
        if isinstance(o, str) and attr == "join":
            def join(a, k):
                from . import gmode, gexec
                if isinstance(a[0], gmode.SList):
                    return gexec.join(self.I, o, a[0])
                items = list(self.iterate(a[0]))
                parts = []
                for i, it in enumerate(items):
                    if i:
                        parts.append(o)
                    parts.append(it)
                return str_concat(*parts) if parts else ""
            return Builtin("str.join", join)
        if isinstance(o, str) and attr == "format":
            def fmt(a, k):
                import string
                parts = []
                auto = 0
                for lit, field, spec, conv in string.Formatter().parse(o):
                    parts.append(lit)
                    if field is None:
                        continue
                    if spec or conv not in (None, "s", "r"):
                        raise Unsupported("format spec / conversion in str.format")
                    if field == "":
                        val = a[auto]
                        auto += 1
                    elif field.isdigit():
                        val = a[int(field)]
                    elif field in k:
                        val = k[field]
                    else:
                        raise Unsupported(f"str.format field {field!r}")
                    parts.append(self.to_str(val))
                return str_concat(*parts)
            return Builtin("str.format", fmt)
        if is_num(o) and attr == "is_integer":
            def is_integer(a, k):
                if isinstance(o, float):
                    return o.is_integer()
                if isinstance(o, int):
                    return True
                return z3.IsInt(sym.to_real(o.term)) if not z3.is_int(o.term) else True
            return Builtin("float.is_integer", is_integer)
        if isinstance(o, ClassRef) and attr == "__name__":
            return o.cls.name
        if isinstance(o, SymClass) and attr == "__name__":
            return SStr([("clsname", o.obj)])
        if isinstance(o, RegexObj) and attr == "match":
            def match(a, k):
                s = a[0]
                if o.pattern != r"\A\w*\Z":
                    self.path.require(False, "regex-literal", f"pattern {o.pattern!r} is not \\A\\w*\\Z")
                if isinstance(s, str):
                    return Opaque("match") if _re.match(o.pattern, s) else None
                if isinstance(s, SName):
                    if self.path.branch(self.allword(s.term), "regex-match"):
                        return Opaque("match")
                    return None
                raise Raise(self.make_exc("TypeError", "expected string"), "re.match")
            return Builtin("re.match", match)
        if o is None:
            raise Raise(self.make_exc("AttributeError", f"None has no attribute {attr}"), self.I.where())
        if isinstance(o, (SNum, int, float, str, SName, SStr, list, tuple, SDict, SSet)):
            pytypes = {SNum: (int, float), int: (int,), float: (float,), str: (str,), SName: (str,), SStr: (str,), list: (list,),
                       GeneratorList: (list,), tuple: (tuple,), SDict: (dict,), SSet: (set,), bool: (bool,)}[type(o)]
            if any(hasattr(t, attr) for t in pytypes):
                raise Unsupported(f"attribute {attr} of a {pytypes[0].__name__} is not modelled")
            raise Raise(self.make_exc("AttributeError", f"{type(o).__name__} has no attribute {attr}"), self.I.where())
        raise Unsupported(f"attribute {attr} of {o!r}")

    # ------------------------------------------------------------------ arithmetic
    def _pyint_and(self, a, b):
        pa, pb = py_is_int(a), py_is_int(b)
        if pa is True and pb is True:
            return True
        if pa is False or pb is False:
            return False
        ts = [x for x in (pa, pb) if x is not True]
        return z3.And(*ts) if len(ts) > 1 else ts[0]

    def neg(self, v):
        if isinstance(v, Obj):
            return self.I.call(self.I.getattr_(v, "__neg__"), [])
        if isinstance(v, (int, float)) and not isinstance(v, bool):
            return -v
        if isinstance(v, SNum):
            return mk_num(-v.term, v.pyint)
        raise Raise(self.make_exc("TypeError", f"bad operand for unary -: {v!r}"), self.I.where())

    DUNDER = {ast.Add: "__add__", ast.Sub: "__sub__", ast.Mult: "__mul__", ast.Div: "__truediv__",
              ast.Pow: "__pow__"}

    def binop(self, op, a, b):
        I = self.I
        t = type(op)
        if isinstance(a, Obj):
            d = self.DUNDER.get(t)
            if d is None:
                raise Unsupported(f"operator {t.__name__} on object")
            return I.call(I.getattr_(a, d), [b])
        from . import gmode as _g, gexec as _ge
        if t is ast.Add and (isinstance(a, _g.SList) or isinstance(b, _g.SList)) and all(isinstance(x, (_g.SList, list)) for x in (a, b)):
            def as_slist(x):
                if isinstance(x, _g.SList):
                    return x
                items = list(x)
                if not all(is_num(v) for v in items):
                    raise Unsupported("concatenation of a symbolic-length list with a list of objects")
                def elem(u, items=items):
                    v = real_term(items[-1]) if items else z3.RealVal(0)
                    for pos in reversed(range(len(items) - 1)):
                        v = z3.If(u == pos, real_term(items[pos]), v)
                    return SNum(v, False)
                return _g.SList(z3.IntVal(len(items)), elem, f"list{len(items)}")
            return _ge.concat(I, as_slist(a), as_slist(b))
        if t is ast.Add:
            if isinstance(a, list) and isinstance(b, list):
                r = list(a) + list(b)
                I.heap_log.append(("alloc-list", I.heap_log.note(r), None, I.where()))
                return r
            if isinstance(a, tuple) and isinstance(b, tuple):
                return a + b
            if isinstance(a, (str, SStr)) and isinstance(b, (str, SStr)):
                return str_concat(a, b)
            if (isinstance(a, tuple) and isinstance(b, list)) or (isinstance(a, list) and isinstance(b, tuple)):
                raise Raise(self.make_exc("TypeError", "can only concatenate list to list / tuple to tuple"), I.where())
        if t is ast.Mult and ((isinstance(a, (list, tuple)) and isinstance(b, int)) or (isinstance(b, (list, tuple)) and isinstance(a, int))):
            seq, n = (a, b) if isinstance(a, (list, tuple)) else (b, a)
            if isinstance(n, bool):
                raise Unsupported("sequence * bool")
            r = type(seq)(list(seq) * n) if isinstance(seq, tuple) else list(seq) * n
            if isinstance(r, list):
                I.heap_log.append(("alloc-list", I.heap_log.note(r), None, I.where()))
            return r
        if isinstance(a, (list, tuple, SDict, SSet)) or isinstance(b, (list, tuple, SDict, SSet)):
            raise Unsupported(f"operator {t.__name__} on containers is not modelled ({type(a).__name__}, {type(b).__name__}) at {I.where()}")
        if not (is_num(a) and is_num(b)):
            raise Raise(self.make_exc("TypeError", f"unsupported operand types for {t.__name__}: {a!r}, {b!r}"), I.where())
        ta, tb = num_term(a), num_term(b)
        both_int = z3.is_int(ta) and z3.is_int(tb)
        if t in (ast.Add, ast.Sub, ast.Mult):
            if not both_int:
                ta, tb = sym.to_real(ta), sym.to_real(tb)
            r = ta + tb if t is ast.Add else (ta - tb if t is ast.Sub else ta * tb)
            return mk_num(r, self._pyint_and(a, b))
        if t is ast.Div:
            self.path.require(sym.to_real(tb) != 0, "builtin:ZeroDivisionError(/)")
            return mk_num(sym.to_real(ta) / sym.to_real(tb), False)
        if t is ast.FloorDiv:
            if not both_int:
                raise Unsupported("// on non-integers")
            self.path.require(tb > 0, "builtin:floordiv-positive-divisor")
            w = self.I.ghost.get("gcd_witness", {}).get((ta.sexpr(), tb.sexpr()))
            if w is not None:
                return mk_num(w, True)
            return mk_num(ta / tb, True)
        if t is ast.Mod:
            if not both_int:
                raise Unsupported("% on non-integers")
            self.path.require(tb > 0, "builtin:mod-positive-modulus")
            return mk_num(ta % tb, True)
        if t is ast.Pow:
            return self.power(a, b, ta, tb)
        raise Unsupported(f"binary operator {t.__name__}")

    def power(self, a, b, ta, tb):
        if z3.is_int(tb) and py_is_int(b) is True:
            # x ** n for a Python int n: defined for n >= 0 (n < 0 needs x != 0; not used)
            self.path.require(tb >= 0, "builtin:int-exponent-nonnegative")
            both_int = z3.is_int(ta) and py_is_int(a) is True
            r = sym.ipow(sym.to_real(ta), tb)
            return mk_num(r, False if not both_int else False)
        # real exponent: base must be positive (negative base -> complex, zero base with
        # non-positive exponent -> ZeroDivisionError)
        x = sym.to_real(ta)
        y = sym.to_real(tb)
        self.path.require(x > 0, "builtin:real-power-positive-base")
        n = self._reciprocal_of_int(y)
        if n is not None:
            return mk_num(sym.root(x, n), False)
        return mk_num(sym.exp(z3.simplify(y * sym.ln(x))), False)

    def _reciprocal_of_int(self, y):
        """If y is the term 1/to_real(n) with n Int-sorted return n."""
        y = z3.simplify(y)
        if z3.is_app(y) and y.decl().kind() == z3.Z3_OP_DIV:
            num, den = y.arg(0), y.arg(1)
            if z3.is_rational_value(num) and num.as_fraction() == 1:
                if z3.is_app(den) and den.decl().kind() == z3.Z3_OP_TO_REAL:
                    return den.arg(0)
        if z3.is_rational_value(y):
            fr = y.as_fraction()
            if fr.numerator == 1 and fr.denominator >= 1:
                return z3.IntVal(fr.denominator)
        return None

    # ------------------------------------------------------------------ comparison
    def compare(self, op, a, b):
        I = self.I
        t = type(op)
        if t in (ast.Is, ast.IsNot):
            a = I.resolve_opt(a)
            b = I.resolve_opt(b)
            if a is None or b is None or isinstance(a, bool) or isinstance(b, bool):
                r = a is b
            elif isinstance(a, Obj) and isinstance(b, Obj):
                r = a is b
            elif (isinstance(a, Arb) and isinstance(b, (Obj, Arb))) or (isinstance(b, Arb) and isinstance(a, Obj)):
                # arbitrary leftover state may or may not be this very object (decided once)
                arb, other = (a, b) if isinstance(a, Arb) else (b, a)
                if arb is other:
                    r = True
                else:
                    known = arb.__dict__.setdefault("identity", {})
                    if id(other) not in known:
                        if any(known.values()):
                            known[id(other)] = False          # it already is another object
                        else:
                            known[id(other)] = I.path.branch(z3.Bool(I.path.fresh_name(f"{arb.tag}-is-{getattr(other, 'name', 'arb')}")),
                                                             f"arb-identity({arb.tag})")
                    r = known[id(other)]
            else:
                raise Unsupported(f"`is` between {a!r} and {b!r}")
            return r if t is ast.Is else (not r)
        if t in (ast.In, ast.NotIn):
            r = self.contains(b, a)
            if t is ast.In:
                return r
            return z3.Not(r) if z3.is_expr(r) else (not r)
        if t in (ast.Eq, ast.NotEq):
            r = self.equals(a, b)
            if t is ast.Eq:
                return r
            return z3.Not(r) if z3.is_expr(r) else (not r)
        if not (is_num(a) and is_num(b)):
            raise Raise(self.make_exc("TypeError", f"ordering comparison of {a!r} and {b!r}"), I.where())
        if not isinstance(a, SNum) and not isinstance(b, SNum):
            return {ast.Lt: a < b, ast.LtE: a <= b, ast.Gt: a > b, ast.GtE: a >= b}[t]
        ta, tb = num_term(a), num_term(b)
        if not (z3.is_int(ta) and z3.is_int(tb)):
            ta, tb = sym.to_real(ta), sym.to_real(tb)
        return {ast.Lt: ta < tb, ast.LtE: ta <= tb, ast.Gt: ta > tb, ast.GtE: ta >= tb}[t]

    def equals(self, a, b):
        I = self.I
        a = I.resolve_opt(a)
        b = I.resolve_opt(b)
        if isinstance(a, Arb) or isinstance(b, Arb):
            if a is None or b is None:
                return False           # the non-None alternative of an arbitrary value
            return z3.Bool(self.path.fresh_name("arb-equals"))
        if is_num(a) and is_num(b):
            if not isinstance(a, SNum) and not isinstance(b, SNum):
                return a == b
            ta, tb = num_term(a), num_term(b)
            if not (z3.is_int(ta) and z3.is_int(tb)):
                ta, tb = sym.to_real(ta), sym.to_real(tb)
            return ta == tb
        if isinstance(a, (str, SName)) and isinstance(b, (str, SName)):
            if isinstance(a, str) and isinstance(b, str):
                return a == b
            return self.key_term(a) == self.key_term(b)
        if isinstance(a, (ClassRef, SymClass)) and isinstance(b, (ClassRef, SymClass)):
            return self.class_eq(a, b)
        if isinstance(a, Obj):
            fn = I.getattr_(a, "__eq__")
            return I.call(fn, [b])
        if isinstance(b, Obj):
            fn = I.getattr_(b, "__eq__")
            return I.call(fn, [a])
        if a is None or b is None:
            return a is b
        if isinstance(a, bool) and isinstance(b, bool):
            return a == b
        if isinstance(a, (tuple, list)) and isinstance(b, type(a)):
            if len(a) != len(b):
                return False
            for x, y in zip(a, b):
                if not I.truth(self.equals(x, y), "seq-eq"):
                    return False
            return True
        if isinstance(a, SDict) and isinstance(b, SDict):
            return self.dict_equals(a, b)
        if isinstance(a, SSet) and isinstance(b, SSet):
            return a.term == b.term
        if isinstance(a, SStr) or isinstance(b, SStr):
            raise Unsupported("symbolic string equality in code")
        # values of different kinds are never equal (number vs str, str vs None ...)
        kinds = lambda v: ("num" if is_num(v) else "str" if isinstance(v, (str, SName)) else type(v).__name__)
        if kinds(a) != kinds(b):
            return False
        raise Unsupported(f"equality of {a!r} and {b!r}")

    def class_eq(self, a, b):
        def tag(c):
            if isinstance(c, SymClass):
                return c.obj.ghost["tag"]
            if isinstance(c.cls, BuiltinClass) or c.cls.name not in sym.CLS:
                return None
            return sym.CLS[c.cls.name]
        if isinstance(a, ClassRef) and isinstance(b, ClassRef):
            return a.cls is b.cls or (isinstance(a.cls, BuiltinClass) and isinstance(b.cls, BuiltinClass) and a.cls.name == b.cls.name)
        ta, tb = tag(a), tag(b)
        if ta is None or tb is None:
            return False
        # comparing the class of an unknown-class object with a concrete class: fork, and
        # on equality the object's structure becomes available (refinement)
        for s_, c_ in ((a, b), (b, a)):
            if isinstance(s_, SymClass) and isinstance(c_, ClassRef) and s_.obj.cls is None and s_.obj.kind == "child":
                if self.path.branch(s_.obj.ghost["tag"] == sym.CLS[c_.cls.name], f"class-eq({s_.obj.name},{c_.cls.name})"):
                    self.I.contracts.refine(self.I, s_.obj, c_.cls)
                    return True
                return False
        return ta == tb

    def dict_equals(self, a, b):
        """Equality of two Name->number dicts.  Representation convention: the value array of
        a symbolic dict is 0 outside its presence set (no code path reads a value without
        the presence test), so dict equality is equality of both arrays - quantifier-free."""
        from . import hashing
        pa, va = hashing.items_arrays(self.I, a)
        pb, vb = hashing.items_arrays(self.I, b)
        return z3.And(pa == pb, va == vb)

    def contains(self, container, key):
        if isinstance(container, SDict):
            found = self.dict_find(container, key)
            if found is not None:
                return True
            if container.base is not None:
                return container.base.get(self.I, key) is not None
            return False
        if isinstance(container, (list, tuple)):
            for x in container:
                if self.I.truth(self.equals(x, key), "in-seq"):
                    return True
            return False
        if isinstance(container, SSet):
            kt = self.key_term(key)
            return sym.member(kt, container.term)
        raise Unsupported(f"`in` on {container!r}")

    # ------------------------------------------------------------------ dicts
    def new_dict(self):
        d = SDict()
        d.alloc_frame = self.I.frames[-1].frame_id if self.I.frames else None
        self.I.heap_log.append(("alloc-dict", self.I.heap_log.note(d), None, self.I.where()))
        return d

    def _key_eq(self, k1, k2):
        """Python bool or z3 Bool: are the two keys equal?"""
        if isinstance(k1, str) and isinstance(k2, str):
            return k1 == k2
        if isinstance(k1, (str, SName)) and isinstance(k2, (str, SName)):
            return self.key_term(k1) == self.key_term(k2)
        if is_num(k1) and is_num(k2):
            return self.equals(k1, k2)
        return False

    def dict_find(self, d, key):
        """Index of the entry whose key equals key (forking on symbolic equality) or None."""
        for i, (k, _v) in enumerate(d.entries):
            e = self._key_eq(k, key)
            if self.I.truth(e, "dict-key-eq"):
                return i
        return None

    def dict_get(self, d, key, default=None):
        i = self.dict_find(d, key)
        if i is not None:
            return d.entries[i][1]
        if isinstance(d.base, ViewBase):
            if not (isinstance(default, int) and not isinstance(default, bool) and default == 0):
                raise Unsupported("get on an accumulator view with a default other than 0")
            k = self.key_term(key)
            return SNum(d.base.view_fn(k), z3.Bool(self.path.fresh_name("acc_value_is_int")))
        if d.base is not None:
            v = d.base.get(self.I, key)
            if v is not None:
                return v
        return default

    def getitem(self, o, k):
        I = self.I
        if isinstance(o, SDict):
            i = self.dict_find(o, k)
            if i is not None:
                return o.entries[i][1]
            if o.base is not None:
                v = o.base.get(I, k)
                if v is not None:
                    return v
            raise Raise(self.make_exc("KeyError", f"{k!r}"), I.where())
        from . import gmode as _gm
        if isinstance(o, _gm.SList):
            if isinstance(k, bool) or not isinstance(k, int) or k < 0:
                raise Unsupported(f"index {k!r} into a symbolic-length list")
            # entries[k] for a known k >= 0: IndexError unless k < len
            if not I.path.branch(o.length > k, "index-in-range"):
                raise Raise(self.make_exc("IndexError", f"index {k} out of range"), I.where())
            _gm.qm(I).add_index(z3.IntVal(k), o.length)
            return o.elem(z3.IntVal(k))
        if isinstance(o, (list, tuple)):
            if isinstance(k, bool) or not isinstance(k, int):
                raise Unsupported(f"symbolic index {k!r}")
            if -len(o) <= k < len(o):
                return o[k]
            raise Raise(self.make_exc("IndexError", f"index {k} out of range"), I.where())
        raise Unsupported(f"subscript of {o!r}")

    def setitem(self, o, k, v, new=False):
        I = self.I
        if isinstance(o, SDict):
            if not new:
                I.heap_log.append(("mutate-dict", I.heap_log.note(o), None, I.where()))
            i = self.dict_find(o, k)
            if i is not None:
                o.entries[i] = (o.entries[i][0], v)
            else:
                o.entries.append((k, v))
            return o
        if isinstance(o, list) and isinstance(k, int) and not isinstance(k, bool):
            if not new:
                I.heap_log.append(("mutate-list", I.heap_log.note(o), "[]=", I.where()))
            if -len(o) <= k < len(o):
                o[k] = v
                return o
            raise Raise(self.make_exc("IndexError", "list assignment index out of range"), I.where())
        raise Unsupported(f"subscript store on {o!r}")

    def slice(self, o, lo, hi):
        from . import gmode, gexec
        if isinstance(o, gmode.SList):
            return gexec.slice_list(self.I, o, lo, hi)
        if not isinstance(o, (list, tuple)):
            raise Unsupported(f"slice of {o!r}")
        for x in (lo, hi):
            if x is not None and (isinstance(x, bool) or not isinstance(x, int)):
                raise Unsupported(f"symbolic slice bound {x!r}")
        r = o[lo:hi]
        if isinstance(r, list):
            r = list(r)
            self.I.heap_log.append(("alloc-list", self.I.heap_log.note(r), None, self.I.where()))
        return r

    def starstar(self, d):
        if isinstance(d, SDict):
            if d.base is not None:
                raise Unsupported("** of a dict with symbolic base")
            return {k: v for k, v in d.entries}
        if isinstance(d, dict):
            return d
        raise Unsupported(f"** of {d!r}")

    def kwargs_dict(self, kwargs):
        d = self.new_dict()
        for k, v in kwargs.items():
            d.entries.append((k, v))
        return d

    # ------------------------------------------------------------------ iteration
    def iterate(self, v):
        if isinstance(v, (list, tuple)):
            return list(v)
        if isinstance(v, DictView):
            d = v.d
            if d.base is not None:
                raise Unsupported("iteration over a dict with symbolic base")
            if v.kind == "items":
                return [(k, val) for k, val in d.entries]
            if v.kind == "values":
                return [val for _k, val in d.entries]
            return [k for k, _v in d.entries]
        if isinstance(v, SDict):
            if v.base is not None:
                raise Unsupported("iteration over a dict with symbolic base")
            return [k for k, _v in v.entries]
        raise Unsupported(f"iteration over {v!r}")

    def for_special(self, it, st, env):
        """Hook for loops over unordered collections (for-each-insert rule)."""
        from . import foreach
        return foreach.for_special(self.I, it, st, env)

    def unpack(self, v, n):
        if isinstance(v, (list, tuple)):
            if len(v) != n:
                raise Raise(self.make_exc("ValueError", "unpack length mismatch"), self.I.where())
            return list(v)
        if isinstance(v, SSet) and n == 1:
            # (x,) = s : requires card(s) == 1; the iteration order of a singleton is irrelevant
            self.path.require(sym.card(v.term) == 1, "builtin:unpack-singleton-set")
            e = sym.the(v.term)
            self.path.assume(v.term == sym.singleton(e))
            return [SName(e)]
        raise Unsupported(f"unpack of {v!r}")

    def fresh_set(self, term):
        r = SSet(term)
        self.I.heap_log.append(("alloc-set", self.I.heap_log.note(r), None, self.I.where()))
        return r

    def make_set(self, elts):
        t = sym.empty_set()
        for e in elts:
            kt = self.key_term(e)
            if kt is None or kt.sort() != sym.Name:
                # a hashable non-string element (ill-typed variable name): opaque element
                kt = self.path.fresh("nonname-element", sym.Name)
            t = z3.Store(t, kt, z3.BoolVal(True))
        return self.fresh_set(t)

    # ------------------------------------------------------------------ builtin functions
    def b_isinstance(self, a, k):
        v, c = a
        v = self.I.resolve_opt(v)
        if isinstance(c, tuple):
            for cc in c:
                if self.I.truth(self.b_isinstance([v, cc], {}), "isinstance"):
                    return True
            return False
        if not isinstance(c, ClassRef):
            raise Unsupported(f"isinstance with {c!r}")
        cls = c.cls
        if isinstance(cls, BuiltinClass):
            if cls.name == "int":
                if isinstance(v, bool):
                    return True
                if is_num(v):
                    self.int_invariant(v)
                    return py_is_int(v)
                return False
            if cls.name == "float":
                if is_num(v) and not isinstance(v, bool):
                    p = py_is_int(v)
                    return (not p) if isinstance(p, bool) else z3.Not(p)
                return False
            if cls.name == "str":
                return isinstance(v, (str, SName, SStr))
            if cls.name == "bool":
                return isinstance(v, bool)
            raise Unsupported(f"isinstance(.., {cls.name})")
        if not isinstance(v, Obj):
            return False
        if v.cls is not None and v.kind not in ("child", "foreign"):
            if isinstance(v.cls, BuiltinClass):
                return False
            return v.cls.is_subclass_of(cls)
        return self.I.contracts.child_isinstance(self.I, v, cls)

    def int_invariant(self, v):
        """Type invariant: a number whose Python type is int has an integral value."""
        if isinstance(v, SNum) and not isinstance(v.pyint, bool) and not z3.is_int(v.term):
            self.path.assume(z3.Implies(v.pyint, z3.IsInt(v.term)))

    def b_len(self, a, k):
        v = a[0]
        from . import gmode, gexec
        if isinstance(v, gmode.SList):
            return gexec.b_len(self.I, v)
        if isinstance(v, (list, tuple, str)):
            return len(v)
        if isinstance(v, SDict):
            if v.base is not None:
                raise Unsupported("len of dict with symbolic base")
            return len(v.entries)
        if isinstance(v, SSet):
            c = sym.card(v.term)
            self.path.assume(c >= 0)
            self.path.assume((c == 0) == (v.term == sym.empty_set()))
            return SNum(c, True)
        if isinstance(v, Obj):
            raise Raise(self.make_exc("TypeError", "object has no len()"), self.I.where())
        raise Unsupported(f"len of {v!r}")

    def b_float(self, a, k):
        v = a[0]
        if isinstance(v, bool):
            return float(v)
        if isinstance(v, (int, float)):
            try:
                return mk_num(sym.to_real(num_term(v)), False)
            except TypeError:
                return float(v)
        if isinstance(v, SNum):
            return mk_num(sym.to_real(v.term), False)
        raise Raise(self.make_exc("TypeError", f"float() argument {v!r}"), self.I.where())

    def b_round(self, a, k):
        if len(a) != 1:
            raise Unsupported("round with ndigits")
        v = a[0]
        if isinstance(v, bool):
            return int(v)
        if isinstance(v, int):
            return v
        if isinstance(v, float):
            return round(v)
        if isinstance(v, SNum):
            if z3.is_int(v.term):
                return mk_num(v.term, True)
            # round(float) -> nearest int, ties to even
            self.int_invariant(v)
            x = v.term
            r = self.path.fresh("round", sym.I)
            rr = z3.ToReal(r)
            self.path.assume(z3.And(rr >= x - z3.RealVal("1/2"), rr <= x + z3.RealVal("1/2"),
                                    z3.Implies(z3.IsInt(x), rr == x),
                                    z3.Implies(z3.Or(rr == x - z3.RealVal("1/2"), rr == x + z3.RealVal("1/2")), r % 2 == 0)))
            return mk_num(r, True)
        raise Raise(self.make_exc("TypeError", f"round() argument {v!r}"), self.I.where())

    def b_sum(self, a, k):
        from . import gmode, gexec
        if isinstance(a[0], gmode.SList):
            return gexec.b_sum(self.I, a[0], a[1] if len(a) > 1 else 0)
        items = self.iterate(a[0])
        acc = a[1] if len(a) > 1 else 0
        for it in items:
            acc = self.binop(ast.Add(), acc, it)
        return acc

    def b_any(self, a, k):
        from . import gmode, gexec
        if isinstance(a[0], gmode.SList):
            return gexec.b_any(self.I, a[0])
        for it in self.iterate(a[0]):
            if self.I.truth(it, "any"):
                return True
        return False

    def b_all(self, a, k):
        from . import gmode, gexec
        if isinstance(a[0], gmode.SList):
            return gexec.b_all(self.I, a[0])
        for it in self.iterate(a[0]):
            if not self.I.truth(it, "all"):
                return False
        return True

    def b_enumerate(self, a, k):
        from . import gmode, gexec
        if isinstance(a[0], gmode.SList):
            return gexec.b_enumerate(self.I, a[0])
        return [(i, x) for i, x in enumerate(self.iterate(a[0]))]

    def b_zip(self, a, k):
        from . import gmode, gexec
        if any(isinstance(x, gmode.SList) for x in a):
            return gexec.b_zip(self.I, list(a))
        return [tuple(t) for t in zip(*[self.iterate(x) for x in a])]

    def b_range(self, a, k):
        if not all(isinstance(x, int) and not isinstance(x, bool) for x in a):
            raise Unsupported("symbolic range")
        return list(range(*a))

    def b_list(self, a, k):
        from . import gmode, gexec
        if a and isinstance(a[0], gmode.SList):
            return gexec.copy_list(self.I, a[0])
        r = list(self.iterate(a[0])) if a else []
        self.I.heap_log.append(("alloc-list", self.I.heap_log.note(r), None, self.I.where()))
        return r

    def b_tuple(self, a, k):
        from . import hashing
        from . import gmode
        if a and isinstance(a[0], gmode.SList):
            return a[0]
        if a and isinstance(a[0], hashing.SortedItems):
            return a[0]              # tuple(sorted(items)): still a function of the item set
        if a and isinstance(a[0], DictView) and a[0].d.base is not None:
            d = a[0].d
            if not hasattr(d, "order_ghost"):
                d.order_ghost = self.path.fresh("dict-order", sym.I)
            return hashing.OrderTainted(d, d.order_ghost)
        return tuple(self.iterate(a[0])) if a else ()

    def b_dict(self, a, k):
        if a or k:
            raise Unsupported("dict(...) with arguments")
        return self.new_dict()

    def b_set(self, a, k):
        if a:
            items = self.iterate(a[0])
            from .structural import is_expr_obj, struct_eq
            if items and all(isinstance(x, Obj) and is_expr_obj(x) for x in items):
                # a set of expression objects: an element is dropped when an earlier one is
                # structurally equal to it (== / hash contract of C12); iterated in list order
                # (order-independence of the consumer is C18's analysis)
                kept = []
                for x in items:
                    dup = False
                    for y in kept:
                        if y is x or self.I.truth(struct_eq(self.I, y, x), "set-dedup"):
                            dup = True
                            break
                    if not dup:
                        kept.append(x)
                r = ObjSetList(kept)
                self.I.heap_log.append(("alloc-list", self.I.heap_log.note(r), None, self.I.where()))
                return r
            return self.make_set(items)
        return self.fresh_set(sym.empty_set())

    def b_str(self, a, k):
        return self.to_str(a[0])

    def b_minmax(self, a, k, is_max):
        if k:
            raise Unsupported("max/min with key= or default=")
        items = list(self.iterate(a[0])) if len(a) == 1 else list(a)
        if not items:
            raise Raise(self.make_exc("ValueError", "max()/min() arg is an empty sequence"), self.I.where())
        best = items[0]
        for it in items[1:]:
            c = self.compare(ast.Gt() if is_max else ast.Lt(), it, best)
            if self.I.truth(c, "max/min"):
                best = it
        return best

    def b_int(self, a, k):
        """int(x): truncation toward zero."""
        if not a:
            return 0
        v = a[0]
        if isinstance(v, bool):
            return int(v)
        if isinstance(v, (int, float)):
            return int(v)
        if isinstance(v, SNum):
            if z3.is_int(v.term):
                return mk_num(v.term, True)
            t = v.term
            return mk_num(z3.If(t >= 0, z3.ToInt(t), -z3.ToInt(-t)), True)
        raise Raise(self.make_exc("TypeError", f"int() argument {v!r}"), self.I.where())

    def b_divmod(self, a, k):
        x, y = a
        q = self.binop(ast.FloorDiv(), x, y)
        r = self.binop(ast.Mod(), x, y)
        return (q, r)

    def b_abs(self, a, k):
        v = a[0]
        if not is_num(v):
            raise Raise(self.make_exc("TypeError", "bad operand type for abs()"), self.I.where())
        if not isinstance(v, SNum):
            return abs(v)
        return mk_num(z3.If(v.term >= 0, v.term, -v.term), v.pyint)

    def b_id(self, a, k):
        v = a[0]
        if isinstance(v, Obj):
            if "id" not in v.ghost:
                v.ghost["id"] = z3.Int(f"id[{v.name}]")
            return SNum(v.ghost["id"], True)
        return SNum(self.path.fresh("id", sym.I), True)

    def b_hash(self, a, k):
        from . import hashing
        return hashing.hash_value(self.I, a[0])

    def b_sorted(self, a, k):
        from . import hashing
        v = a[0]
        if isinstance(v, (list, tuple)) and all(is_num(x) for x in v):
            return self.sorted_numbers(list(v), k)
        if k:
            raise Unsupported("sorted() with key / reverse of a non-list value")
        return hashing.sorted_value(self.I, v)

    def sorted_numbers(self, xs, k):
        """sorted(numbers, key=..., reverse=...) for a list of known length: the result is
        *some* permutation of the arguments that is ordered by the key (stability is not
        modelled: ties may come in either order, which only weakens what is known)."""
        I = self.I
        bad = set(k) - {"key", "reverse"}
        if bad or (k.get("reverse") not in (None, False, True)):
            raise Unsupported("sorted() with these keyword arguments")
        n = len(xs)
        if n <= 1:
            return list(xs)
        if n > 7:
            raise Unsupported("sorted() of more than 7 symbolic numbers")
        keyf = k.get("key")
        key = (lambda v: v) if keyf is None else (lambda v: I.call(keyf, [v]))
        tag = I.path.fresh_name("sorted")
        perm = [z3.Int(f"{tag}.perm{i}") for i in range(n)]
        I.path.assume(z3.And(*[z3.And(p >= 0, p < n) for p in perm]))
        I.path.assume(z3.Distinct(*perm))
        out = []
        for i in range(n):
            t = real_term(xs[n - 1])
            isint = xs[n - 1].pyint if isinstance(xs[n - 1], SNum) else isinstance(xs[n - 1], int)
            isint = isint if z3.is_expr(isint) else z3.BoolVal(bool(isint))
            for j in reversed(range(n - 1)):
                t = z3.If(perm[i] == j, real_term(xs[j]), t)
                pj = xs[j].pyint if isinstance(xs[j], SNum) else isinstance(xs[j], int)
                isint = z3.If(perm[i] == j, pj if z3.is_expr(pj) else z3.BoolVal(bool(pj)), isint)
            r = z3.Real(f"{tag}.out{i}")
            I.path.assume(r == t)
            out.append(SNum(r, z3.simplify(isint)))
        keys = [key(o) for o in out]
        if not all(is_num(x) for x in keys):
            raise Unsupported("sorted() with a key that is not a number")
        for i in range(n - 1):
            a_, b_ = real_term(keys[i]), real_term(keys[i + 1])
            I.path.assume(a_ >= b_ if k.get("reverse") else a_ <= b_)
        return out

    def to_str(self, v):
        I = self.I
        v = I.resolve_opt(v)
        if isinstance(v, (str, SStr)):
            return v
        if isinstance(v, bool) or v is None:
            return str(v)
        if isinstance(v, int):
            return str(v)
        if isinstance(v, float):
            return repr(v)
        if isinstance(v, SNum):
            return SStr([("num", v)])
        if isinstance(v, SName):
            lit = sym.literal_of_name(v.term)
            if lit is not None:
                return lit
            return SStr([("name", v.term)])
        if isinstance(v, Obj):
            return I.call(I.getattr_(v, "__str__"), [])
        if isinstance(v, (list, tuple, SDict)):
            return SStr([("repr", v)])
        raise Unsupported(f"str() of {v!r}")

    # ------------------------------------------------------------------ math
    def _real(self, v, fname):
        if not is_num(v):
            raise Raise(self.make_exc("TypeError", f"{fname}: must be real number, not {v!r}"), self.I.where())
        return real_term(v)

    def m_sqrt(self, a, k):
        x = self._real(a[0], "math.sqrt")
        self.path.require(x >= 0, "builtin:math.sqrt-nonnegative")
        return mk_num(sym.root(x, z3.IntVal(2)), False)

    def m_cbrt(self, a, k):
        x = self._real(a[0], "math.cbrt")
        return mk_num(sym.root(x, z3.IntVal(3)), False)

    def m_log(self, a, k):
        x = self._real(a[0], "math.log")
        self.path.require(x > 0, "builtin:math.log-positive-argument")
        if len(a) > 1:
            b = self._real(a[1], "math.log")
            self.path.require(b > 0, "builtin:math.log-positive-base")
            self.path.require(b != 1, "builtin:math.log-base-not-one(ZeroDivisionError)")
            return mk_num(sym.ln(x) / sym.ln(b), False)
        return mk_num(sym.ln(x), False)

    def m_isclose(self, a, k):
        x, y = self._real(a[0], "math.isclose"), self._real(a[1], "math.isclose")
        rel = real_term(k.get("rel_tol", 1e-09))
        ab = real_term(k.get("abs_tol", 0.0))
        absx = z3.If(x >= 0, x, -x)
        absy = z3.If(y >= 0, y, -y)
        d = z3.If(x - y >= 0, x - y, y - x)
        big = z3.If(absx >= absy, absx, absy)
        tol = z3.If(rel * big >= ab, rel * big, ab)
        return d <= tol

    def m_cos(self, a, k):
        return mk_num(sym.cos(self._real(a[0], "math.cos")), False)

    def m_sin(self, a, k):
        return mk_num(sym.sin(self._real(a[0], "math.sin")), False)

    def m_gcd(self, a, k):
        ts = []
        for v in a:
            if not (is_num(v) and py_is_int(v) is True):
                raise Raise(self.make_exc("TypeError", "math.gcd needs ints"), self.I.where())
            ts.append(num_term(v))
        if len(ts) != 2:
            raise Unsupported("gcd arity")
        if all(z3.is_int_value(t) for t in ts):
            import math
            return math.gcd(ts[0].as_long(), ts[1].as_long())
        m, n = ts
        p = self.path
        g = p.fresh("gcd", sym.I)
        qm = p.fresh("gcd_qm", sym.I)
        qn = p.fresh("gcd_qn", sym.I)
        # contract of gcd on positive ints: g >= 1 divides both; quotients are witnesses
        p.require(z3.And(m >= 1, n >= 1), "builtin:gcd-modelled-on-positive-ints")
        p.assume(z3.And(g >= 1, qm >= 1, qn >= 1, m == g * qm, n == g * qn, g <= m, g <= n))
        p.assume(z3.Implies(m == n, g == m))
        w = self.I.ghost.setdefault("gcd_witness", {})
        w[(m.sexpr(), g.sexpr())] = qm
        w[(n.sexpr(), g.sexpr())] = qn
        self.I.ghost.setdefault("gcd_facts", []).append((g, m, n, qm, qn))
        return SNum(g, True)


class DictView:
    def __init__(self, d, kind):
        self.d = d
        self.kind = kind


from .interp import Raise, Unsupported  # noqa: E402  (circular import resolved at module end)
