"""Builtin contract of hash() and sorted() (DESIGN §2.4): hash is an uninterpreted function of
the hashed *value*: tuples hash as a function of their component hashes, numerically equal
numbers hash equally, strings by content; objects through their own __hash__."""
from __future__ import annotations
import z3
from . import sym, structural as st
from .values import *


class OrderTainted:
    """list(d.items()) / tuple(d.items()) of a dict whose insertion order is not determined by
    its content: the value depends on a ghost permutation of the dict object."""
    def __init__(self, d, order):
        self.d = d
        self.order = order


class SortedItems:
    """sorted(d.items()) for a dict with distinct string keys: a canonical function of the
    item *set* (independent of insertion order)."""
    def __init__(self, d):
        self.d = d


def sorted_value(I, v):
    from .builtin_contracts import DictView, SDict
    if isinstance(v, DictView) and v.kind == "items":
        return SortedItems(v.d)
    raise_unsupported(f"sorted() of {v!r}")


def raise_unsupported(msg):
    from .interp import Unsupported
    raise Unsupported(msg)


def items_arrays(I, d):
    from .builtin_contracts import NumBase
    if isinstance(d.base, NumBase):
        present, vals = d.base.present, d.base.vals
    elif d.base is None:
        present, vals = sym.empty_set(), z3.K(sym.Name, z3.RealVal(0))
    else:
        raise_unsupported("hash of a lazily defined dict")
    for k, v in d.entries:
        kt = I.bi.key_term(k)
        present = z3.Store(present, kt, z3.BoolVal(True))
        vals = z3.Store(vals, kt, real_term(v))
    return present, vals


def masked(present, vals):
    k = z3.Const("k!mask", sym.Name)
    return z3.Lambda([k], z3.If(z3.Select(present, k), z3.Select(vals, k), z3.RealVal(0)))


def hash_term(I, v):
    """Int term for hash(v)."""
    v = I.resolve_opt(v)
    from . import gmode
    if isinstance(v, gmode.SList):
        # a tuple of symbolic length: a function of its length and of its element hashes
        hl = z3.Function("hash_seq", z3.IntSort(), z3.IntSort(), z3.IntSort())
        return hl(v.length, gmode.bighash(I, lambda t: hash_term(I, v.elem(t)), v.length))
    if isinstance(v, tuple):
        hs = [hash_term(I, c) for c in v]
        return st.hash_tuple(len(hs))(*hs)
    if isinstance(v, SortedItems):
        present, vals = items_arrays(I, v.d)
        return st.hash_items(present, vals)
    if isinstance(v, OrderTainted):
        present, vals = items_arrays(I, v.d)
        f = z3.Function("hash_ordered_items", sym.NameSet, z3.ArraySort(sym.Name, z3.RealSort()), z3.IntSort(), z3.IntSort())
        return f(present, vals, v.order)
    if isinstance(v, str):
        t = sym.literal_name(v)
        return st.hash_name(t)
    if isinstance(v, SName):
        return st.hash_name(v.term)
    if is_num(v):
        return st.hash_num(real_term(v))
    if isinstance(v, Obj):
        r = I.call(I.getattr_(v, "__hash__"), [])
        return num_term(r)
    if v is None:
        return z3.IntVal(0)
    raise_unsupported(f"hash of {v!r}")


def hash_value(I, v):
    return SNum(hash_term(I, v), True)
