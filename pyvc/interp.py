"""Symbolic interpreter of the real ASTs with decision-vector path exploration.

One run of the function under verification = one path.  Every symbolic branch consumes
the next recorded decision; unexplored alternatives are queued as new decision prefixes.
Recursive calls on unknown-class objects are replaced by their contracts (contracts.py).
"""
from __future__ import annotations
import ast
import z3
from . import sym
from .values import *
from .loader import FuncDef, ClassInfo
from . import gmode


class Raise(Exception):
    def __init__(self, exc, where=None):
        self.exc = exc
        self.where = where


class HeapLog(list):
    """Executor heap log.  Entries identify containers by id(); every container that is
    mentioned is kept alive for the life of the path, so that an id is never reused for
    another container (which made fresh sets look like sets owned by an existing node)."""
    def __init__(self):
        super().__init__()
        self.keepalive = []

    def note(self, obj):
        self.keepalive.append(obj)
        return id(obj)


class PathAbort(Exception):
    """The current path is assumed away (assumption violated / infeasible)."""


class Unsupported(Exception):
    """A construct outside the supported subset: the function is outside reach."""


class _Return(Exception):
    def __init__(self, value):
        self.value = value


class _Break(Exception):
    pass


class _Continue(Exception):
    pass


class LazyOpt:
    """An Optional field whose None-ness is symbolic; resolved (forked) on first load."""
    def __init__(self, isnone, value):
        self.isnone = isnone
        self.value = value


class _CompView:
    """Lets _comp treat a DictComp like the other comprehensions."""
    def __init__(self, node):
        self.generators = node.generators
        self.elt = None


class Env:
    __slots__ = ("vars", "parent", "module", "funcdef", "frame_id")

    def __init__(self, module, parent=None, funcdef=None, frame_id=0):
        self.vars = {}
        self.parent = parent
        self.module = module
        self.funcdef = funcdef
        self.frame_id = frame_id

    def lookup(self, name):
        e = self
        while e is not None:
            if name in e.vars:
                return True, e.vars[name]
            e = e.parent
        return False, None


FEAS_TIMEOUT_MS = 4000


class Path:
    def __init__(self, prefix=()):
        self.dec = list(prefix)
        self.given = len(self.dec)
        self.i = 0
        self.pc = []
        self.labels = []
        self.solver = z3.Solver()
        self.solver.set("timeout", FEAS_TIMEOUT_MS)
        self.alternatives = []
        self.obligations = []      # mid-path (label, pc snapshot, cond, info)
        self.counters = {}
        self.feas_unknown = False
        self.notes = []
        self.solver_calls = 0

    # -- symbols ---------------------------------------------------------------------
    def fresh_name(self, hint):
        n = self.counters.get(hint, 0)
        self.counters[hint] = n + 1
        return hint if n == 0 else f"{hint}#{n}"

    def fresh(self, hint, sort):
        return z3.Const(self.fresh_name(hint), sort)

    # -- assumptions -------------------------------------------------------------------
    def assume(self, cond):
        if isinstance(cond, bool):
            if not cond:
                raise PathAbort()
            return
        cond = z3.simplify(cond)
        if z3.is_true(cond):
            return
        if z3.is_false(cond):
            raise PathAbort()
        self.pc.append(cond)
        self.solver.add(cond)

    def _sat(self, cond):
        self.solver.push()
        self.solver.add(cond)
        r = self.solver.check()
        self.solver.pop()
        self.solver_calls += 1
        if r == z3.unknown:
            self.feas_unknown = True
            return True
        return r == z3.sat

    def feasible(self):
        r = self.solver.check()
        self.solver_calls += 1
        return r != z3.unsat

    # -- decisions --------------------------------------------------------------------
    def branch(self, cond, label=""):
        if isinstance(cond, bool):
            return cond
        cond = z3.simplify(cond)
        if z3.is_true(cond):
            return True
        if z3.is_false(cond):
            return False
        if self.i < len(self.dec):
            kind, val = self.dec[self.i]
            self.i += 1
            if kind == "F":
                self.pc.append(cond if val else z3.Not(cond))
                self.solver.add(self.pc[-1])
                self.labels.append((label, val))
            return val
        t = self._sat(cond)
        f = self._sat(z3.Not(cond))
        if t and f:
            self.alternatives.append(self.dec[:] + [("F", False)])
            self.dec.append(("F", True))
            self.i += 1
            self.pc.append(cond)
            self.solver.add(cond)
            self.labels.append((label, True))
            return True
        if not t and not f:
            raise PathAbort()
        self.dec.append(("I", t))
        self.i += 1
        return t

    def choose(self, options, label=""):
        """n-way choice among (not necessarily exclusive) conditions; each alternative is
        explored with its own condition assumed.  Returns the chosen index."""
        if self.i < len(self.dec):
            kind, val = self.dec[self.i]
            self.i += 1
            assert kind == "C"
            self.assume(options[val])
            self.labels.append((label, val))
            return val
        feas = [k for k, c in enumerate(options) if self._sat(c if not isinstance(c, bool) else z3.BoolVal(c))]
        if not feas:
            raise PathAbort()
        for k in feas[1:]:
            self.alternatives.append(self.dec[:] + [("C", k)])
        self.dec.append(("C", feas[0]))
        self.i += 1
        self.assume(options[feas[0]])
        self.labels.append((label, feas[0]))
        return feas[0]

    # -- obligations -----------------------------------------------------------------
    def require(self, cond, label, info=None, qfacts=False):
        """A mid-path proof obligation (e.g. a builtin precondition); assumed afterwards."""
        if qfacts and getattr(self, "qm_source", None) is not None:
            info = {"info": info, "qfacts": True}
        if isinstance(cond, bool):
            cond = z3.BoolVal(cond)
        cond = z3.simplify(cond)
        if z3.is_true(cond):
            self.obligations.append((label, None, cond, info))
            return
        self.obligations.append((label, list(self.pc), cond, info))
        if z3.is_false(cond):
            raise PathAbort()
        # continue under the assumption that the requirement holds
        if not self._sat(cond):
            raise PathAbort()
        self.pc.append(cond)
        self.solver.add(cond)


class PathResult:
    def __init__(self, path, outcome, interp):
        self.path = path
        self.pc = path.pc
        self.outcome = outcome      # ('ret', value) | ('raise', excobj, where)
        self.obligations = path.obligations
        self.interp = interp
        self.labels = path.labels


def explore(make_run, max_paths=5000):
    """make_run(path) -> (interp, thunk).  Enumerates every feasible path."""
    stack = [[]]
    results = []
    stats = {"paths": 0, "aborted": 0, "solver_calls": 0}
    while stack:
        prefix = stack.pop()
        path = Path(prefix)
        interp = None
        try:
            interp, thunk = make_run(path)
            try:
                out = ("ret", thunk())
            except Raise as r:
                out = ("raise", r.exc, r.where)
            except Exception as ex_:
                if type(ex_).__name__ == "LoopChecked":
                    out = ("loopcheck", None)
                else:
                    raise
            aborted = False
        except PathAbort:
            aborted = True
        except Unsupported as u:
            # this path leaves the supported subset: the other paths are still explored and
            # judged; the family is reported as undecided (never as passed)
            stats.setdefault("unsupported", []).append(str(u))
            if len(stats["unsupported"]) > 2000:
                raise
            aborted = True
        stack.extend(path.alternatives)
        stats["solver_calls"] += path.solver_calls
        if aborted:
            stats["aborted"] += 1
            # a requirement that is false outright ends its path; the obligation stays
            dead = [o for o in path.obligations if o[1] is not None and z3.is_false(o[2])]
            if dead:
                stats.setdefault("orphans", []).append((path, dead))
            continue
        if not path.feasible():
            stats["aborted"] += 1
            continue
        stats["paths"] += 1
        results.append(PathResult(path, out, interp))
        if len(results) > max_paths:
            raise Unsupported(f"more than {max_paths} paths")
    return results, stats


# ----------------------------------------------------------------------------------------


class Interp:
    MAX_DEPTH = 60

    def __init__(self, program, path, contracts=None, force_contract=(), builtins=None):
        self.prog = program
        self.path = path
        self.contracts = contracts
        self.force_contract = set(force_contract)
        self.frames = []
        self.heap_log = HeapLog()
        self.ghost = {}
        self.module_cache = {}
        self.frame_counter = 0
        self.assume_no_raise = 0
        self.call_log = []
        from . import builtin_contracts
        self.bi = builtin_contracts.Builtins(self)

    # ------------------------------------------------------------------ names / globals
    def global_value(self, mod, name):
        key = (mod.name, name)
        if key in self.module_cache:
            return self.module_cache[key]
        r = self.prog.resolve_global(mod, name)
        if r is None:
            v = self.bi.lookup_builtin(name)
        else:
            v = self._wrap_resolved(r)
        self.module_cache[key] = v
        return v

    def _wrap_resolved(self, r):
        kind, t = r[0], r[1]
        if kind == "func":
            return Closure(t, None)
        if kind == "class":
            return ClassRef(t)
        if kind == "module":
            return ModuleRef("repo", t)
        if kind == "extmodule":
            return ModuleRef("ext", t)
        if kind == "assign":
            mod, node = t
            if isinstance(node, (ast.Dict, ast.List, ast.Set, ast.DictComp, ast.ListComp, ast.SetComp)) or \
                    (isinstance(node, ast.Call) and isinstance(node.func, ast.Name) and node.func.id in ("dict", "list", "set", "defaultdict", "OrderedDict")):
                if isinstance(node, ast.List) and all(isinstance(e, ast.Constant) for e in node.elts):
                    return self.eval(node, Env(mod))          # __all__-style constant lists
                # module-level mutable state outlives every call: its content is arbitrary
                return self.bi.arbitrary_global_container(mod, node)
            return self.eval(node, Env(mod))
        if kind == "extname":
            return self.bi.external_name(*t)
        raise Unsupported(f"global kind {kind}")

    # ------------------------------------------------------------------ truthiness
    def truth(self, v, label=""):
        if isinstance(v, bool):
            return v
        if v is None:
            return False
        if z3.is_expr(v) and z3.is_bool(v):
            return self.path.branch(v, label)
        if isinstance(v, SNum):
            return self.path.branch(v.term != 0, label)
        if isinstance(v, (int, float)):
            return v != 0
        if isinstance(v, (list, tuple, dict, str)):
            return len(v) > 0
        if isinstance(v, SSet):
            return self.path.branch(v.term != sym.empty_set(), label)
        if isinstance(v, SAssoc):
            return len(v.items) > 0
        if isinstance(v, SName):
            nonempty = self.bi.name_nonempty(v)
            return self.path.branch(nonempty, label)
        if isinstance(v, (Obj, Closure, BoundMethod, ContractMethod, ClassRef, Builtin)):
            return True
        if isinstance(v, LazyOpt):
            return self.truth(self.resolve_opt(v), label)
        if isinstance(v, Arb):
            return self.path.branch(z3.Bool(self.path.fresh_name(f"arb-truthy({v.tag})")), label)
        raise Unsupported(f"truth value of {v!r}")

    def as_bool_term(self, v):
        """z3 Bool for a boolean-ish value without forking (used for and/or of pure tests)."""
        if isinstance(v, bool):
            return z3.BoolVal(v)
        if z3.is_expr(v) and z3.is_bool(v):
            return v
        return None

    def resolve_opt(self, v):
        if isinstance(v, LazyOpt):
            if self.path.branch(v.isnone, "is-None"):
                return None
            return v.value
        return v

    # ------------------------------------------------------------------ calling
    def call(self, fn, args, kwargs=None, node=None):
        kwargs = kwargs or {}
        if isinstance(fn, Closure):
            return self.call_closure(fn, args, kwargs)
        if isinstance(fn, BoundMethod):
            return self.call_funcdef(fn.funcdef, [fn.obj] + list(args), kwargs)
        if isinstance(fn, ContractMethod):
            self.call_log.append((fn.name, fn.obj.name))
            return self.contracts.apply(self, fn.obj, fn.name, list(args), kwargs)
        if isinstance(fn, Builtin):
            return fn.fn(list(args), kwargs)
        if isinstance(fn, ClassRef):
            return self.instantiate(fn.cls, list(args), kwargs)
        raise Unsupported(f"call of {fn!r}")

    def instantiate(self, cls, args, kwargs):
        if isinstance(cls, BuiltinClass):
            if cls.exception:
                o = Obj(cls, self.path.fresh_name("exc"), kind="exception")
                o.fields["args"] = list(args)
                return o
            return self.bi.call_builtin_class(cls, args, kwargs)
        if cls.is_exception():
            o = Obj(cls, self.path.fresh_name("exc"), kind="exception")
            o.fields["args"] = list(args)
            return o
        o = Obj(cls, self.path.fresh_name("new_" + cls.name))
        o.alloc_frame = self.frames[-1].frame_id if self.frames else None
        init = cls.lookup("__init__")
        self.heap_log.append(("alloc", o, None, self.where()))
        if init is not None:
            o.in_init = True
            self.call_funcdef(init, [o] + args, kwargs)
            o.in_init = False
        if self.contracts is not None:
            self.contracts.after_construct(self, o)
        return o

    def call_closure(self, c, args, kwargs):
        if c.node is not None:     # lambda
            env = Env(c.env.module, c.env, c.env.funcdef, c.env.frame_id)
            self.bind_args(c.node.args, args, kwargs, env, c.env, "<lambda>")
            return self.eval(c.node.body, env)
        return self.call_funcdef(c.funcdef, args, kwargs, closure_env=c.env)

    def call_funcdef(self, fd, args, kwargs, closure_env=None):
        if len(self.frames) > self.MAX_DEPTH:
            raise Unsupported(f"call depth exceeded at {fd.qualname}")
        if fd.unknown_decorators:
            raise Unsupported(f"decorator {fd.unknown_decorators} on {fd.qualname}")
        if any(isinstance(x, (gmode.StarArgs, gmode.SList)) for x in args):
            from . import gexec
            r = gexec.helper_contract(self, fd, args, kwargs)
            if r is not NotImplemented:
                return r
        self.frame_counter += 1
        env = Env(fd.module, closure_env, fd, self.frame_counter)
        defenv = Env(fd.module)
        self.bind_args(fd.node.args, args, kwargs, env, defenv, fd.qualname)
        self.frames.append(env)
        try:
            self.exec_block(fd.node.body, env)
            return None
        except _Return as r:
            return r.value
        finally:
            self.frames.pop()

    def bind_args(self, a, args, kwargs, env, defenv, fname):
        posonly = [p.arg for p in a.posonlyargs]
        params = posonly + [p.arg for p in a.args]
        args = list(args)
        kwargs = dict(kwargs)
        # keyword names that are symbolic strings (from **{name: value}): such a key may
        # coincide with a parameter name - Python then binds that parameter, or raises
        # TypeError "got multiple values" if it was already bound positionally
        for key in [k for k in kwargs if isinstance(k, SName)]:
            for idx, p in enumerate(params + [q.arg for q in a.kwonlyargs]):
                if p in posonly:
                    continue            # positional-only names never collide with keywords
                if self.path.branch(key.term == sym.literal_name(p), f"kwarg-name-is-{p}"):
                    val = kwargs.pop(key)
                    if p in kwargs or (p in params and params.index(p) < len(args)):
                        raise Raise(self.bi.make_exc("TypeError", f"{fname}() got multiple values for argument '{p}'"), fname)
                    kwargs[p] = val
                    break
        ndef = len(a.defaults)
        for idx, p in enumerate(params):
            if idx < len(args):
                if p in kwargs and p not in posonly:
                    raise Raise(self.bi.make_exc("TypeError", f"multiple values for {p}"), fname)
                env.vars[p] = args[idx]
            elif p in kwargs and p not in posonly:
                env.vars[p] = kwargs.pop(p)
            else:
                didx = idx - (len(params) - ndef)
                if didx >= 0:
                    env.vars[p] = self.eval(a.defaults[didx], defenv)
                else:
                    raise Raise(self.bi.make_exc("TypeError", f"missing argument {p} of {fname}"), fname)
        if any(isinstance(x, gmode.StarArgs) for x in args[:len(params)]):
            raise Unsupported("a symbolic-length list spread over named parameters")
        extra = args[len(params):]
        stars = [x for x in extra if isinstance(x, gmode.StarArgs)]
        if stars:
            from . import gexec
            if a.vararg is None:
                raise Unsupported("a symbolic-length list passed to a function without *args")
            env.vars[a.vararg.arg] = gexec.concat_star(self, extra)
        elif a.vararg is not None:
            env.vars[a.vararg.arg] = tuple(extra)
        elif extra:
            raise Raise(self.bi.make_exc("TypeError", f"too many arguments for {fname}"), fname)
        for p, d in zip(a.kwonlyargs, a.kw_defaults):
            if p.arg in kwargs:
                env.vars[p.arg] = kwargs.pop(p.arg)
            elif d is not None:
                env.vars[p.arg] = self.eval(d, defenv)
            else:
                raise Raise(self.bi.make_exc("TypeError", f"missing kw argument {p.arg}"), fname)
        if a.kwarg is not None:
            env.vars[a.kwarg.arg] = self.bi.kwargs_dict(kwargs)
        elif kwargs:
            raise Raise(self.bi.make_exc("TypeError", f"unexpected keyword {list(kwargs)} for {fname}"), fname)

    def where(self):
        if self.frames and self.frames[-1].funcdef is not None:
            return self.frames[-1].funcdef.qualname
        return "<top>"

    # ------------------------------------------------------------------ statements
    def exec_block(self, body, env):
        for st in body:
            self.exec_stmt(st, env)

    def exec_stmt(self, st, env):
        m = getattr(self, "st_" + type(st).__name__, None)
        if m is None:
            raise Unsupported(f"statement {type(st).__name__} at {env.module.relpath}:{st.lineno}")
        self.cur_node = st
        return m(st, env)

    def st_Expr(self, st, env):
        if isinstance(st.value, ast.Constant) and isinstance(st.value.value, str):
            return          # docstring
        self.eval(st.value, env)

    def st_Pass(self, st, env):
        return

    def st_Return(self, st, env):
        raise _Return(self.eval(st.value, env) if st.value is not None else None)

    def st_AnnAssign(self, st, env):
        if st.value is not None:
            self.assign(st.target, self.eval(st.value, env), env)

    def st_Assign(self, st, env):
        v = self.eval(st.value, env)
        for t in st.targets:
            self.assign(t, v, env)

    def st_AugAssign(self, st, env):
        cur = self.eval(ast.copy_location(self._as_load(st.target), st), env)
        rhs = self.eval(st.value, env)
        if isinstance(st.op, ast.BitOr) and isinstance(cur, SSet) and isinstance(rhs, SSet):
            # set |= set updates the SAME set object in place
            self.heap_log.append(("mutate-set", self.heap_log.note(cur), "|=", self.where()))
            cur.term = sym.union(cur.term, rhs.term)
            self.assign(st.target, cur, env)
            return
        if isinstance(st.op, ast.Add) and isinstance(cur, list) and not isinstance(cur, GeneratorList):
            # list += iterable extends the SAME list object in place
            self.heap_log.append(("mutate-list", self.heap_log.note(cur), "+=", self.where()))
            cur.extend(self.bi.iterate(rhs))
            self.assign(st.target, cur, env)
            return
        v = self.binop(st.op, cur, rhs)
        self.assign(st.target, v, env)

    def _as_load(self, t):
        if isinstance(t, ast.Name):
            return ast.Name(id=t.id, ctx=ast.Load())
        if isinstance(t, ast.Attribute):
            return ast.Attribute(value=t.value, attr=t.attr, ctx=ast.Load())
        if isinstance(t, ast.Subscript):
            return ast.Subscript(value=t.value, slice=t.slice, ctx=ast.Load())
        raise Unsupported("augassign target")

    def assign(self, t, v, env):
        if isinstance(t, ast.Name):
            env.vars[t.id] = v
        elif isinstance(t, ast.Attribute):
            o = self.eval(t.value, env)
            self.setattr_(o, t.attr, v)
        elif isinstance(t, (ast.Tuple, ast.List)):
            vals = self.bi.unpack(v, len(t.elts))
            for tt, vv in zip(t.elts, vals):
                self.assign(tt, vv, env)
        elif isinstance(t, ast.Subscript):
            o = self.eval(t.value, env)
            k = self.eval(t.slice, env)
            self.bi.setitem(o, k, v)
        else:
            raise Unsupported(f"assignment target {type(t).__name__}")

    def st_If(self, st, env):
        if self.truth(self.eval(st.test, env), self.loc(st)):
            self.exec_block(st.body, env)
        else:
            self.exec_block(st.orelse, env)

    def loc(self, node):
        mod = self.frames[-1].module.short if self.frames else ""
        return f"{mod}:{node.lineno}"

    def st_For(self, st, env):
        it = self.eval(st.iter, env)
        if st.orelse:
            raise Unsupported("for-else")
        if isinstance(it, gmode.SList):
            from . import gexec
            gexec.for_loop(self, it, st, env)
            return
        special = self.bi.for_special(it, st, env)
        if special:
            return
        for item in self.bi.iterate(it):
            self.assign(st.target, item, env)
            try:
                self.exec_block(st.body, env)
            except _Break:
                break
            except _Continue:
                continue

    def st_While(self, st, env):
        if st.orelse:
            raise Unsupported("while-else")
        n = 0
        while self.truth(self.eval(st.test, env), self.loc(st)):
            n += 1
            if n > 64:
                raise Unsupported(f"while loop at line {st.lineno} did not finish within 64 iterations")
            try:
                self.exec_block(st.body, env)
            except _Break:
                break
            except _Continue:
                continue

    def st_Assert(self, st, env):
        if not self.truth(self.eval(st.test, env), self.loc(st)):
            raise Raise(self.bi.make_exc("AssertionError", "assert"), f"{env.module.relpath}:{st.lineno}")

    def st_Delete(self, st, env):
        for t in st.targets:
            if isinstance(t, ast.Name) and t.id in env.vars:
                del env.vars[t.id]
            else:
                raise Unsupported("del of a non-local target")

    def st_Break(self, st, env):
        raise _Break()

    def st_Continue(self, st, env):
        raise _Continue()

    def st_Raise(self, st, env):
        if st.exc is None or st.cause is not None:
            raise Unsupported("bare raise / raise from")
        e = self.eval(st.exc, env)
        if isinstance(e, ClassRef):
            e = self.instantiate(e.cls, [], {})
        if not (isinstance(e, Obj) and e.kind == "exception"):
            raise Unsupported(f"raise of {e!r}")
        raise Raise(e, f"{env.module.relpath}:{st.lineno}")

    def st_Try(self, st, env):
        if st.finalbody or st.orelse:
            raise Unsupported("try/finally or try/else")
        try:
            self.exec_block(st.body, env)
        except Raise as r:
            for h in st.handlers:
                if h.type is None:
                    raise Unsupported("bare except")
                hc = self.eval(h.type, env)
                if self.bi.exc_matches(r.exc, hc):
                    if h.name:
                        env.vars[h.name] = r.exc
                    self.heap_log.append(("caught", r.exc, None, self.where()))
                    self.exec_block(h.body, env)
                    return
            raise

    # ------------------------------------------------------------------ expressions
    def eval(self, node, env):
        m = getattr(self, "ex_" + type(node).__name__, None)
        if m is None:
            raise Unsupported(f"expression {type(node).__name__} at {env.module.relpath}:{getattr(node, 'lineno', '?')}")
        return m(node, env)

    def ex_Constant(self, node, env):
        return node.value

    def ex_Name(self, node, env):
        ok, v = env.lookup(node.id)
        if ok:
            return v
        return self.global_value(env.module, node.id)

    def ex_Attribute(self, node, env):
        o = self.eval(node.value, env)
        return self.getattr_(o, node.attr)

    def ex_Call(self, node, env):
        # super() needs the defining class of the current function
        if isinstance(node.func, ast.Attribute) and isinstance(node.func.value, ast.Call) \
                and isinstance(node.func.value.func, ast.Name) and node.func.value.func.id == "super" \
                and not node.func.value.args:
            fd = env.funcdef
            e = env
            while fd is None and e is not None:
                e = e.parent
                fd = e.funcdef if e else None
            slf = self.frames[-1].vars.get("self")
            fn = self.super_lookup(fd, slf, node.func.attr)
        else:
            fn = self.eval(node.func, env)
        args = []
        for a in node.args:
            if isinstance(a, ast.Starred):
                sv = self.eval(a.value, env)
                if isinstance(sv, gmode.SList):
                    args.append(gmode.StarArgs(sv))
                else:
                    args.extend(self.bi.iterate(sv))
            else:
                args.append(self.eval(a, env))
        kwargs = {}
        for k in node.keywords:
            if k.arg is None:
                d = self.eval(k.value, env)
                kwargs.update(self.bi.starstar(d))
            else:
                kwargs[k.arg] = self.eval(k.value, env)
        self.cur_call = node
        return self.call(fn, args, kwargs, node)

    def super_lookup(self, fd, slf, attr):
        if fd is None or fd.defcls is None or not isinstance(slf, Obj) or not isinstance(slf.cls, ClassInfo):
            raise Unsupported("super() outside a method")
        mro = slf.cls.mro
        idx = mro.index(fd.defcls)
        for c in mro[idx + 1:]:
            if attr in c.methods:
                return BoundMethod(slf, c.methods[attr])
        if attr == "__init__":
            return Builtin("object.__init__", lambda a, k: None)
        raise Unsupported(f"super().{attr} not found")

    def ex_Lambda(self, node, env):
        return Closure(None, env, node=node)

    def ex_IfExp(self, node, env):
        if self.truth(self.eval(node.test, env), self.loc(node)):
            return self.eval(node.body, env)
        return self.eval(node.orelse, env)

    def ex_BoolOp(self, node, env):
        is_and = isinstance(node.op, ast.And)
        v = None
        for sub in node.values:
            v = self.eval(sub, env)
            t = self.truth(v, self.loc(node))
            if is_and and not t:
                return v if not (z3.is_expr(v)) else False
            if (not is_and) and t:
                return v if not (z3.is_expr(v)) else True
        if z3.is_expr(v):
            return is_and
        return v

    def ex_UnaryOp(self, node, env):
        v = self.eval(node.operand, env)
        if isinstance(node.op, ast.Not):
            b = self.as_bool_term(v)
            if b is not None and not isinstance(v, bool):
                return z3.Not(b)
            return not self.truth(v, self.loc(node))
        if isinstance(node.op, ast.USub):
            return self.bi.neg(v)
        if isinstance(node.op, ast.UAdd):
            return v
        raise Unsupported("unary op")

    def ex_BinOp(self, node, env):
        a = self.eval(node.left, env)
        b = self.eval(node.right, env)
        return self.binop(node.op, a, b)

    def binop(self, op, a, b):
        return self.bi.binop(op, a, b)

    def ex_Compare(self, node, env):
        left = self.eval(node.left, env)
        result = True
        for op, rn in zip(node.ops, node.comparators):
            right = self.eval(rn, env)
            r = self.bi.compare(op, left, right)
            if len(node.ops) == 1:
                return r
            if not self.truth(r, self.loc(node)):
                return False
            left = right
        return result

    def ex_Tuple(self, node, env):
        return tuple(self._elts(node.elts, env))

    def ex_List(self, node, env):
        v = self._elts(node.elts, env)
        self.heap_log.append(("alloc-list", self.heap_log.note(v), None, self.where()))
        return v

    def _elts(self, elts, env):
        out = []
        for e in elts:
            if isinstance(e, ast.Starred):
                out.extend(self.bi.iterate(self.eval(e.value, env)))
            else:
                out.append(self.eval(e, env))
        return out

    def ex_Set(self, node, env):
        return self.bi.make_set(self._elts(node.elts, env))

    def ex_Dict(self, node, env):
        d = self.bi.new_dict()
        for k, v in zip(node.keys, node.values):
            if k is None:
                raise Unsupported("dict ** display")
            d = self.bi.setitem(d, self.eval(k, env), self.eval(v, env), new=True) or d
        return d

    def ex_Subscript(self, node, env):
        o = self.eval(node.value, env)
        if isinstance(node.slice, ast.Slice):
            lo = self.eval(node.slice.lower, env) if node.slice.lower is not None else None
            hi = self.eval(node.slice.upper, env) if node.slice.upper is not None else None
            if node.slice.step is not None:
                raise Unsupported("slice step")
            return self.bi.slice(o, lo, hi)
        return self.bi.getitem(o, self.eval(node.slice, env))

    def ex_JoinedStr(self, node, env):
        parts = []
        for v in node.values:
            if isinstance(v, ast.Constant):
                parts.append(v.value)
            elif isinstance(v, ast.FormattedValue):
                val = self.eval(v.value, env)
                spec = None
                if v.format_spec is not None:
                    if not all(isinstance(x, ast.Constant) for x in v.format_spec.values):
                        raise Unsupported("computed format spec in f-string")
                    spec = "".join(x.value for x in v.format_spec.values)
                if v.conversion not in (-1, ord("r"), ord("s")):
                    raise Unsupported("conversion in f-string")
                piece = self.bi.to_str(val)
                if spec and is_num(val):
                    # a formatted number: exact only for the round-trip formats
                    if spec not in (".17g", "r"):
                        piece = SStr([("numfmt", val, spec)])
                parts.append(piece)
            else:
                raise Unsupported("f-string piece")
        return str_concat(*parts)

    def _comp(self, node, env, elt_fn):
        out = []
        if not hasattr(node, "elt"):
            node = _CompView(node)
        if len(node.generators) >= 1:
            first = self.eval(node.generators[0].iter, env)
            if isinstance(first, gmode.SList):
                from . import gexec
                return gexec.comprehension(self, node, env, first, elt_fn)

        def rec(gi, e):
            if gi == len(node.generators):
                out.append(elt_fn(e))
                return
            g = node.generators[gi]
            if g.is_async:
                raise Unsupported("async comprehension")
            it = self.eval(g.iter, e)
            for item in self.bi.iterate(it):
                e2 = Env(e.module, e, e.funcdef, e.frame_id)
                self.assign(g.target, item, e2)
                if all(self.truth(self.eval(c, e2), self.loc(c)) for c in g.ifs):
                    rec(gi + 1, e2)
        rec(0, env)
        return out

    def ex_ListComp(self, node, env):
        v = self._comp(node, env, lambda e: self.eval(node.elt, e))
        self.heap_log.append(("alloc-list", self.heap_log.note(v), None, self.where()))
        return v


    def ex_DictComp(self, node, env):
        # {k: v for k in iterable}: over a set of names this is the for-each-insert pattern
        if len(node.generators) == 1 and not node.generators[0].ifs:
            g = node.generators[0]
            it = self.eval(g.iter, env)
            from . import foreach
            lazy = foreach.dict_comprehension(self, it, node, g, env)
            if lazy is not None:
                return lazy
        d = self.bi.new_dict()
        pairs = self._comp(node, env, lambda e: (self.eval(node.key, e), self.eval(node.value, e)))
        for k, v in pairs:
            self.bi.setitem(d, k, v, new=True)
        return d

    def ex_SetComp(self, node, env):
        return self.bi.make_set(self._comp(node, env, lambda e: self.eval(node.elt, e)))

    def ex_GeneratorExp(self, node, env):
        v = self._comp(node, env, lambda e: self.eval(node.elt, e))
        if isinstance(v, gmode.SList):
            return v
        return GeneratorList(v)

    # ------------------------------------------------------------------ attributes
    def getattr_(self, o, attr):
        o = self.resolve_opt(o)
        if isinstance(o, ModuleRef):
            if o.kind == "repo":
                r = self.prog.module_attr(o.target, attr)
                if r is None:
                    raise Unsupported(f"module attribute {o.target.name}.{attr}")
                key = (o.target.name, attr)
                if key not in self.module_cache:
                    self.module_cache[key] = self._wrap_resolved(r)
                return self.module_cache[key]
            return self.bi.ext_module_attr(o.target, attr)
        if isinstance(o, Obj):
            return self.obj_getattr(o, attr)
        return self.bi.value_attr(o, attr)

    def obj_getattr(self, o, attr):
        if attr == "__class__":
            if o.cls is None:
                return SymClass(o)
            return ClassRef(o.cls)
        if attr in o.fields:
            v = o.fields[attr]
            if isinstance(v, Arb) and not getattr(v, "resolved", False):
                # arbitrary leftover state: None or some value (fork once per object field)
                nv = Arb(v.tag)
                nv.resolved = True
                v = LazyOpt(z3.Bool(self.path.fresh_name(f"{o.name}.{attr}.is-None")), nv)
            if isinstance(v, LazyOpt):
                v = self.resolve_opt(v)
                o.fields[attr] = v
            return v
        if o.cls is None or o.kind in ("child", "foreign"):
            return self.contracts.child_attr(self, o, attr)
        if isinstance(o.cls, ClassInfo):
            fd = o.cls.lookup(attr)
            if fd is not None:
                if fd.is_property:
                    return self.call_funcdef(fd, [o], {})
                if self.forced(attr) and self.contracts.has(attr):
                    return ContractMethod(o, attr)
                return BoundMethod(o, fd)
        if o.kind == "exception":
            raise Unsupported(f"exception attribute {attr}")
        raise Raise(self.bi.make_exc("AttributeError", f"{o!r} has no attribute {attr}"), self.where())

    def forced(self, attr):
        if attr in self.force_contract:
            return True
        return any(p.endswith("*") and attr.startswith(p[:-1]) for p in self.force_contract)

    def setattr_(self, o, attr, v):
        if not isinstance(o, Obj):
            raise Unsupported(f"attribute store on {o!r}")
        if o.cls is None or o.kind == "foreign" or (o.kind == "child" and not o.in_init):
            return self.contracts.child_setattr(self, o, attr, v)
        cur_self = self.frames[-1].vars.get("self") if self.frames else None
        fname = self.frames[-1].funcdef.name if self.frames and self.frames[-1].funcdef else ""
        self.heap_log.append(("store", o, attr, self.where(),
                              bool(o.in_init and cur_self is o and fname == "__init__"), self.heap_log.note(v)))
        o.fields[attr] = v
