"""Ground instantiation of the real-analysis facts the SMT layer uses (DESIGN §3.2).

exp / ln / sin / cos / ipow / root are uninterpreted for z3; this module walks the terms of
a query and adds *instances* of the facts below for the terms present, over a few rounds
(instances may introduce new terms).  Every schema is a theorem about the reals; the Lean
file spec/lemmas.lean states them (see DESIGN §3.3).  No quantifier is sent to the solver.
"""
from __future__ import annotations
import z3
from . import sym

RV = z3.RealVal


def _neg(t):
    return z3.simplify(-t)


def subterms(fs):
    seen = {}
    stack = list(fs)
    while stack:
        t = stack.pop()
        k = t.get_id()
        if k in seen:
            continue
        seen[k] = t
        if z3.is_app(t):
            stack.extend(t.children())
        elif z3.is_quantifier(t):
            stack.append(t.body())
    return list(seen.values())


def _is_mul(t):
    return z3.is_app(t) and t.decl().kind() == z3.Z3_OP_MUL


def _is_div(t):
    return z3.is_app(t) and t.decl().kind() == z3.Z3_OP_DIV


def _split_mul(t):
    cs = t.children()
    a = cs[0]
    b = cs[1] if len(cs) == 2 else z3.Product(*cs[1:])
    return a, b


def _has_negative_coefficient(e):
    if z3.is_rational_value(e):
        return e.as_fraction() < 0
    if _is_mul(e):
        c = e.arg(0)
        return z3.is_rational_value(c) and c.as_fraction() < 0
    if z3.is_app(e) and e.decl().kind() == z3.Z3_OP_UMINUS:
        return True
    return False


GLOBAL = None


def global_facts():
    E = sym.E
    return [E > RV("2.718"), E < RV("2.719"), sym.ln(E) == 1, sym.exp(RV(1)) == E,
            sym.exp(RV(0)) == 1, sym.ln(RV(1)) == 0]


def instances_for(t, level):
    """Instances of the schemas for one application term t."""
    out = []
    if not z3.is_app(t):
        return out
    name = t.decl().name()
    kind = t.decl().kind()
    if kind == z3.Z3_OP_UNINTERPRETED:
        if name == "exp":
            (a,) = t.children()
            out += [t > 0, sym.ln(t) == a]
            out.append(z3.Implies(a == 0, t == 1))
            if level <= 1:
                e = z3.simplify(a, som=True)
                if z3.is_app(e) and e.decl().kind() == z3.Z3_OP_ADD:
                    parts = e.children()
                    prod = sym.exp(parts[0])
                    for q in parts[1:]:
                        prod = prod * sym.exp(q)
                    out.append(t == prod)
                elif _has_negative_coefficient(e):
                    out.append(t == 1 / sym.exp(_neg(e)))
        elif name == "ln":
            (a,) = t.children()
            out.append(z3.Implies(a > 0, sym.exp(t) == a))
            out.append(z3.Implies(a == 1, t == 0))
            out.append(z3.Implies(a > 1, t > 0))
            out.append(z3.Implies(z3.And(a > 0, a < 1), t < 0))
            out.append(z3.Implies(a == sym.E, t == 1))
            if _is_mul(a):
                x, y = _split_mul(a)
                out.append(z3.Implies(z3.And(x > 0, y > 0), t == sym.ln(x) + sym.ln(y)))
            if _is_div(a):
                x, y = a.children()
                out.append(z3.Implies(z3.And(x > 0, y > 0), t == sym.ln(x) - sym.ln(y)))
        elif name == "sin":
            (a,) = t.children()
            out.append(sym.sin(_neg(a)) == -t)
            out += [t <= 1, t >= -1]
        elif name == "cos":
            (a,) = t.children()
            out.append(sym.cos(_neg(a)) == t)
            out += [t <= 1, t >= -1]
        elif name == "ipow":
            x, n = t.children()
            out.append(z3.Implies(n == 0, t == 1))
            out.append(z3.Implies(n == 1, t == x))
            out.append(z3.Implies(n == 2, t == x * x))
            out.append(z3.Implies(n >= 1, (t == 0) == (x == 0)))
            out.append(z3.Implies(z3.And(x > 0, n >= 0), z3.And(t > 0, t == sym.exp(sym.to_real(n) * sym.ln(x)))))
            out.append(z3.Implies(z3.And(n >= 0, n % 2 == 0), t >= 0))
            out.append(z3.Implies(z3.And(n >= 0, x == 1), t == 1))
            if level <= 1:
                nx = _neg(x)
                out.append(z3.Implies(z3.And(n >= 0, n % 2 == 0), t == sym.ipow(nx, n)))
                out.append(z3.Implies(z3.And(n >= 0, n % 2 == 1), t == -sym.ipow(nx, n)))
                if not z3.is_int_value(n) or n.as_long() >= 1:
                    out.append(z3.Implies(n >= 1, t == x * sym.ipow(x, z3.simplify(n - 1))))
            if _is_mul(x):
                a, b = _split_mul(x)
                out.append(z3.Implies(n >= 0, t == sym.ipow(a, n) * sym.ipow(b, n)))
            if _is_div(x):
                a, b = x.children()
                out.append(z3.Implies(z3.And(n >= 0, b != 0), t == sym.ipow(a, n) / sym.ipow(b, n)))
            if z3.is_app(x) and x.decl().name() == "ipow":
                y, m = x.children()
                out.append(z3.Implies(z3.And(n >= 0, m >= 0), t == sym.ipow(y, z3.simplify(m * n))))
            if z3.is_app(x) and x.decl().name() == "root":
                y, m = x.children()
                out.append(z3.Implies(z3.And(m == n, m >= 1, z3.Or(y > 0, z3.And(m % 2 == 1, y != 0))), t == y))
        elif name == "root":
            x, n = t.children()
            out.append(z3.Implies(n == 1, t == x))
            out.append(z3.Implies(z3.And(x > 0, n >= 1),
                                  z3.And(t > 0, t == sym.exp(sym.ln(x) / sym.to_real(n)), sym.ipow(t, n) == x)))
            out.append(z3.Implies(z3.And(x < 0, n >= 1, n % 2 == 1), z3.And(t < 0, sym.ipow(t, n) == x)))
            if level <= 1:
                nx = _neg(x)
                out.append(z3.Implies(z3.And(n >= 1, n % 2 == 1), sym.root(nx, n) == -t))
            if _is_mul(x):
                a, b = _split_mul(x)
                out.append(z3.Implies(z3.And(n >= 1, z3.Or(z3.And(a > 0, b > 0), z3.And(n % 2 == 1, a != 0, b != 0))),
                                      t == sym.root(a, n) * sym.root(b, n)))
            if _is_div(x):
                a, b = x.children()
                out.append(z3.Implies(z3.And(n >= 1, z3.Or(z3.And(a > 0, b > 0), z3.And(n % 2 == 1, a != 0, b != 0))),
                                      t == sym.root(a, n) / sym.root(b, n)))
            if z3.is_app(x) and x.decl().name() == "root":
                y, m = x.children()
                out.append(z3.Implies(z3.And(n >= 1, m >= 1, y > 0), t == sym.root(y, z3.simplify(m * n))))
        elif name == "card":
            (s,) = t.children()
            out += [t >= 0, (t == 0) == (s == sym.empty_set())]
            out.append(z3.Implies(t == 1, s == sym.singleton(sym.the(s))))
    elif kind == z3.Z3_OP_MUL and z3.is_int(t):
        cs = t.children()
        if len(cs) == 2 and not any(z3.is_int_value(c) for c in cs):
            a, b = cs
            out.append((t % 2 == 0) == z3.Or(a % 2 == 0, b % 2 == 0))
            out.append(z3.Implies(z3.And(a >= 1, b >= 1), z3.And(t >= a, t >= b, t >= 1)))
    return out


def exp_pairs(terms, limit=40):
    """exp(s) * exp(t) = exp(s + t) for pairs of exp terms that are multiplied somewhere."""
    out = []
    exps = [t for t in terms if z3.is_app(t) and t.decl().name() == "exp"]
    ids = {e.get_id() for e in exps}
    count = 0
    for t in terms:
        if _is_mul(t):
            es = [c for c in t.children() if c.get_id() in ids]
            for i in range(len(es)):
                for j in range(i + 1, len(es)):
                    a, b = es[i].arg(0), es[j].arg(0)
                    out.append(es[i] * es[j] == sym.exp(z3.simplify(a + b)))
                    count += 1
                    if count >= limit:
                        return out
        if _is_div(t):
            x, y = t.children()
            if x.get_id() in ids and y.get_id() in ids:
                out.append(t == sym.exp(z3.simplify(x.arg(0) - y.arg(0))))
            if y.get_id() in ids and z3.is_rational_value(x) and x.as_fraction() == 1:
                out.append(t == sym.exp(z3.simplify(-y.arg(0))))
    return out


def instantiate(formulas, rounds=3, max_instances=4000):
    """Returns the list of ground instances for the terms of formulas (saturated for a
    few rounds)."""
    seen_terms = set()
    all_inst = list(global_facts())
    inst_ids = set()
    frontier = list(formulas) + all_inst
    for level in range(rounds):
        terms = subterms(frontier)
        new = []
        fresh_terms = [t for t in terms if t.get_id() not in seen_terms]
        for t in fresh_terms:
            seen_terms.add(t.get_id())
            for f in instances_for(t, level):
                f = z3.simplify(f)
                if z3.is_true(f) or f.get_id() in inst_ids:
                    continue
                inst_ids.add(f.get_id())
                new.append(f)
        for f in exp_pairs(terms):
            f = z3.simplify(f)
            if not z3.is_true(f) and f.get_id() not in inst_ids:
                inst_ids.add(f.get_id())
                new.append(f)
        if not new:
            break
        all_inst.extend(new)
        frontier = new
        if len(all_inst) > max_instances:
            break
    return all_inst
