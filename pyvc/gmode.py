"""G-mode: n-ary nodes of *symbolic* arity k >= 0 (DESIGN §2.6).

`self._inners` is an SList: a length term and an element function from index terms to values.
The children c(i) form a ChildFamily whose ghost symbols are functions of the index.  No
quantifier is sent to the solver: universally quantified facts (induction hypotheses for every
child, facts established by element-wise loops) are kept by the quantifier manager (QM) and
instantiated at every index term in play (witnesses of raising elements, skolem indices of
universally quantified goals); big operators are uninterpreted functions keyed by the body of
their element function, with unfolding instances.
"""
from __future__ import annotations
import ast
import z3
from . import sym
from .values import *

IDX = z3.Int("i!")          # canonical bound index used to key element functions
BOUND = [IDX] + [z3.Int(f"i!{d}") for d in range(1, 6)]     # one per nesting depth of big operators
_DEPTH = [0]


def is_bound_var(t):
    return any(t.get_id() == b.get_id() for b in BOUND)


def keying():
    """True while an element function is being evaluated at a bound variable only to name a big
    operator: nothing met there is a fact about the program state."""
    return _DEPTH[0] > 0


class SList:
    """A list / tuple of symbolic length."""
    def __init__(self, length, elem, tag, family=None):
        self.length = length        # z3 Int term, >= 0
        self.elem = elem            # index term -> value
        self.tag = tag
        self.family = family        # ChildFamily when the elements are its children in order

    def __repr__(self):
        return f"SList({self.tag}, len={self.length})"


class IndexedItem:
    """An opaque list element that remembers which entry of the original list it is."""
    def __init__(self, idx):
        self.idx = idx

    def __repr__(self):
        return f"item[{self.idx}]"


def cond_value(c, a, b):
    """if c then a else b for list elements (numbers and indexed items)."""
    if isinstance(a, IndexedItem) and isinstance(b, IndexedItem):
        return IndexedItem(z3.If(c, a.idx, b.idx))
    if is_num(a) and is_num(b):
        return SNum(z3.If(c, real_term(a), real_term(b)), False)
    if a is b:
        return a
    from .interp import Unsupported
    raise Unsupported("G-mode: conditional list element of mixed kinds")


class ConsList(SList):
    """A few known values in front of a symbolic-length list (the *args of f(a, *rest))."""
    def __init__(self, prefix, rest):
        self.prefix = list(prefix)
        self.rest = rest
        n = len(self.prefix)

        def elem(u):
            if z3.is_int_value(u):
                i = u.as_long()
                return self.prefix[i] if i < n else rest.elem(z3.IntVal(i - n))
            from .interp import Unsupported
            raise Unsupported("G-mode: element of a list with object prefix at a symbolic index")
        SList.__init__(self, z3.simplify(rest.length + n), elem, f"cons({n},{rest.tag})")
        self.all_expr = getattr(rest, "all_expr", False)


class SnocList(SList):
    """A symbolic-length list followed by a few known values (the *args of f(*rest, a))."""
    def __init__(self, rest, suffix):
        self.rest = rest
        self.suffix = list(suffix)

        def elem(u):
            from .interp import Unsupported
            raise Unsupported("G-mode: element of a list with object suffix at a symbolic index")
        SList.__init__(self, z3.simplify(rest.length + len(self.suffix)), elem, f"snoc({rest.tag},{len(self.suffix)})")
        self.all_expr = getattr(rest, "all_expr", False)


class ConcatList(SList):
    """Several symbolic-length lists one after the other, then a few known values
    (the *args of f(*a, *b, c))."""
    def __init__(self, parts, suffix=()):
        self.parts = list(parts)
        self.suffix = list(suffix)

        def elem(u):
            from .interp import Unsupported
            raise Unsupported("G-mode: element of a concatenated operand list at a symbolic index")
        n = z3.IntVal(len(self.suffix))
        for p_ in self.parts:
            n = n + p_.length
        SList.__init__(self, z3.simplify(n), elem, "concat(" + ",".join(p_.tag for p_ in self.parts) + f";{len(self.suffix)})")
        self.all_expr = all(getattr(p_, "all_expr", False) for p_ in self.parts)


class ReplacedList(SList):
    """A symbolic-length list with its j-th entry replaced by a known object (0 <= j < length)."""
    def __init__(self, base, j, new):
        self.base, self.j, self.new = base, j, new

        def elem(u):
            if z3.is_int_value(u) or True:
                a = base.elem(u)
                if isinstance(a, IndexedItem) and isinstance(new, IndexedItem):
                    return IndexedItem(z3.If(u == j, new.idx, a.idx))
                if is_num(a) and is_num(new):
                    return SNum(z3.If(u == j, real_term(new), real_term(a)), False)
            from .interp import Unsupported
            raise Unsupported("G-mode: element of a list with a replaced object entry at a symbolic index")
        SList.__init__(self, base.length, elem, f"{base.tag}[{j}:=new]")
        self.all_expr = getattr(base, "all_expr", False)


class StarArgs:
    """`*slist` in a call."""
    def __init__(self, slist):
        self.slist = slist


class QM:
    """Quantifier manager of one path."""
    def __init__(self):
        self.index_terms = []       # (term, length term)
        self.foralls = []           # (length term, fn(idx) -> formula)  holds for 0 <= idx < length
        self.links = []             # plain facts (skolem witnesses of negated universals ...)
        self.name_terms = []        # names at which set-membership choice functions are instantiated
        self.name_facts = []        # fn(name term) -> formula
        self.big_apps = []          # (kind, F, body_fn, n) applications of big operators
        self.app_keys = set()
        self.index_ids = set()
        self.instantiating = False
        self.ext_done = {}

    def add_index(self, t, length):
        if self.instantiating and not _shallow_index(t, 2):
            return      # shifted indices (t + 1, ite ...) and nested index functions (sigma(sigma(w))) met while
                        # instantiating are not instantiated at in turn
        if t.get_id() not in self.index_ids:
            self.index_ids.add(t.get_id())
            self.index_terms.append((t, length))

    def add_name(self, n):
        if all(n.get_id() != u.get_id() for u in self.name_terms):
            self.name_terms.append(n)

    def extensionality(self):
        """Pointwise equal element functions give equal big operators: for two applications
        F(n), G(n) of the same kind and length,  F(n) = G(n)  or  f(w) != g(w) for a skolem w < n."""
        for i in range(len(self.big_apps)):
            for j in range(i + 1, len(self.big_apps)):
                (k1, F, f, n1), (k2, G, g, n2) = self.big_apps[i], self.big_apps[j]
                if k1 != k2 or F.name() == G.name():
                    continue
                key = (F.name(), G.name(), z3.simplify(n1).get_id(), z3.simplify(n2).get_id())
                if key in self.ext_done:
                    continue
                w = z3.Int(f"w!ext[{F.name()},{G.name()}#{len(self.ext_done)}]")
                self.ext_done[key] = w
                self.add_index(w, n1)
                self.links.append(z3.Or(n1 != n2, F(n1) == G(n2), z3.And(w >= 0, w < n1, f(w) != g(w))))
        # a sum of zeros is zero: F(n) = 0 or some term with index < n is not 0
        for (kind, F, f, n) in self.big_apps:
            if kind != "bigsum":
                continue
            key = ("zero-sum", F.name(), z3.simplify(n).get_id())
            if key in self.ext_done:
                continue
            w = z3.Int(f"w!zsum[{F.name()}#{len(self.ext_done)}]")
            self.ext_done[key] = w
            self.add_index(w, n)
            self.links.append(z3.Or(F(n) == 0, z3.And(w >= 0, w < n, f(w) != 0)))

    def facts(self, rounds=4):
        """All ground instances: every universally quantified fact at every index term in play
        (instantiating may bring new big operators, index terms and facts: iterate to a fixpoint,
        at most `rounds` times)."""
        key = self._state()
        if getattr(self, "_facts_cache", None) and self._facts_cache[0] == key:
            return list(self._facts_cache[1])
        self.extensionality()
        self.instantiating = True
        try:
            out = self._facts(rounds)
        finally:
            self.instantiating = False
        self._facts_cache = (self._state(), out)
        return list(out)

    def _state(self):
        return (len(self.index_terms), len(self.foralls), len(self.links), len(self.name_terms), len(self.name_facts),
                len(self.big_apps), len(self.app_keys))

    def _facts(self, rounds):
        inst, seen = [], None
        cache = self.__dict__.setdefault("_inst_cache", {})       # (fact, term) -> simplified instance
        for _ in range(rounds):
            inst = []
            for n in list(self.name_terms):
                for fn in list(self.name_facts):
                    key = (id(fn), n.get_id())
                    if key not in cache:
                        cache[key] = z3.simplify(fn(n))
                    inst.append(cache[key])
            idx = list(self.index_terms)
            for (t, _len) in idx:
                for (length, fn) in list(self.foralls):
                    key = (id(fn), t.get_id())
                    if key not in cache:
                        cache[key] = z3.simplify(z3.Implies(z3.And(t >= 0, t < length) if length is not None else (t >= 0), fn(t)))
                    inst.append(cache[key])
            self.extensionality()
            state = (len(inst), len(self.index_terms), len(self.foralls), len(self.links), len(self.name_terms))
            if state == seen:
                break
            seen = state
        # de-duplicate
        uniq = {}
        for f in self.links:
            f = z3.simplify(f)
            if not z3.is_true(f):
                uniq[f.get_id()] = f
        for f in inst:
            if not z3.is_true(f):
                uniq[f.get_id()] = f
        return list(uniq.values())


def qm(I):
    if "qm" not in I.ghost:
        I.ghost["qm"] = QM()
    return I.ghost["qm"]


def _shallow_index(t, depth):
    """t is a constant / numeral, or an application (index function, +, ite ...) of shallow terms, at
    most `depth` applications high: sigma(w), sigma(wU(n)), wU(n) + i + 1, ite(u < j, u, u + 1) - but
    not sigma(sigma(sigma(w))) or a shift of a shift."""
    if z3.is_const(t):
        return True
    if depth == 0 or not z3.is_app(t):
        return False
    if t.decl().kind() not in (z3.Z3_OP_UNINTERPRETED, z3.Z3_OP_ADD):
        return False                  # (ite-shifted indices of entry-removed lists multiply without bound)
    return all(_shallow_index(c, depth - 1) for c in t.children())


def _consts_of(t):
    out, todo = [], [t]
    while todo:
        e = todo.pop()
        if z3.is_const(e):
            out.append(e)
        else:
            todo.extend(e.children())
    return out


class ChildFamily:
    """The children c(0) .. c(k-1) of unknown class; ghost symbols are functions of the index."""
    def __init__(self, I, name, length):
        self.name = name
        self.length = length
        self.cache = {}
        self.tagF = z3.Function(f"tag[{name}]", sym.I, sym.ClsSort)
        self.varsF = z3.Function(f"Vars[{name}]", sym.I, sym.NameSet)
        self.frF = z3.Function(f"fr[{name}]", sym.I, sym.B)
        self.efF = z3.Function(f"ef[{name}]", sym.I, sym.B)
        I.ghost.setdefault("families", {})[name] = self
        qm(I).foralls.append((length, lambda t: self.tagF(t) != sym.CLS["Foreign"]))

    def child(self, I, idx):
        idx = z3.simplify(idx) if not z3.is_const(idx) else idx
        key = idx.get_id()
        if key not in self.cache:
            o = Obj(None, f"{self.name}[{idx}]", kind="child")
            o.ghost["tag"] = self.tagF(idx)
            o.ghost["vars"] = self.varsF(idx)
            o.ghost["fully_reduced"] = self.frF(idx)
            o.ghost["eval_failed"] = self.efF(idx)
            o.ghost["indexed"] = (self, idx)
            self.cache[key] = o
            if not keying() and not any(is_bound_var(c) for c in _consts_of(idx)):
                qm(I).add_index(idx, self.length)
        return self.cache[key]

    def slist(self, I):
        r = SList(self.length, lambda t: self.child(I, t), self.name, family=self)
        r.all_expr = True
        return r

    def attr_func(self, attr):
        """Parameter of the i-th child as a function of the index (meaningful only for the
        classes that have the attribute)."""
        sort = sym.I if attr == "n" else sym.R
        return z3.Function(f"{attr}[{self.name}]", sym.I, sort)

    def refinement_facts(self, I, cls_name):
        """What it means for the i-th child to be a Constant, for every i (the quantified form
        of the per-child refinement of contracts.refine): it is defined everywhere, its value is
        the stored number, it mentions no variable and all its partials are 0."""
        key = ("refinement", self.name, cls_name)
        if key in I.ghost.setdefault("big_registered", set()) or keying():
            return
        I.ghost["big_registered"].add(key)
        if cls_name in ("Negation", "Reciprocal", "Sine", "Cosine"):
            I.ghost["big_registered"].discard(key)
            return self.unary_refinement_facts(I, cls_name)
        if cls_name != "Constant":
            return
        from . import spec
        valF = self.attr_func("value")
        q = qm(I)
        q.foralls.append((self.length, lambda t: z3.Implies(self.tagF(t) == sym.CLS["Constant"], self.varsF(t) == sym.empty_set())))
        for pt in list(I.ghost.get("points", {}).values()):
            def fact(t, pt=pt):
                d = spec.den(I, self.child(I, t), pt)
                facts = [d.D, d.V == valF(t)] + [d.dV(n) == 0 for n in I.ghost.get("ambient_names", [])]
                return z3.Implies(self.tagF(t) == sym.CLS["Constant"], z3.And(*facts))
            q.foralls.append((self.length, fact))

    def inner_family(self, I):
        """The `_inner` operands of those children that are unary nodes, as a family over the same
        indices (inner(i) is meaningful only where child i is a unary node)."""
        if getattr(self, "_inner_fam", None) is None:
            self._inner_fam = ChildFamily(I, f"{self.name}._inner", self.length)
        return self._inner_fam

    def unary_refinement_facts(self, I, cls_name):
        """For every i: if child i is a <cls_name> node then its variables and its denotation are
        those of the spec table applied to inner(i) (the quantified form of contracts.refine)."""
        key = ("refinement", self.name, cls_name)
        if key in I.ghost.setdefault("big_registered", set()) or keying():
            return
        I.ghost["big_registered"].add(key)
        from . import spec
        inner = self.inner_family(I)
        cls = I.prog.classes[cls_name]
        q = qm(I)
        q.foralls.append((self.length, lambda t: z3.Implies(self.tagF(t) == sym.CLS[cls_name], self.varsF(t) == inner.varsF(t))))
        for pt in list(I.ghost.get("points", {}).values()):
            def fact(t, pt=pt):
                d = spec.den(I, self.child(I, t), pt)
                templ = Obj(cls, f"{self.name}[{t}]~{cls_name}")
                templ.fields["_inner"] = inner.child(I, t)
                dt = spec._table_den(I, templ, pt)
                facts = [d.D == dt.D, z3.Implies(d.D, d.V == dt.V)]
                if cls_name == "Reciprocal":
                    facts.append(z3.Implies(d.D, d.V * spec.den(I, inner.child(I, t), pt).V == 1))    # product form of 1/x
                facts += [z3.Implies(d.D, d.dV(n) == dt.dV(n)) for n in I.ghost.get("ambient_names", [])]
                return z3.Implies(self.tagF(t) == sym.CLS[cls_name], z3.And(*facts))
            q.foralls.append((self.length, fact))

    # denotation symbols per point
    def den_funcs(self, pn):
        return (z3.Function(f"D[{self.name}|{pn}]", sym.I, sym.B),
                z3.Function(f"V[{self.name}|{pn}]", sym.I, sym.R),
                z3.Function(f"dV[{self.name}|{pn}]", sym.I, sym.Name, sym.R))


# ---------------------------------------------------------------------------- big operators

_BIG = {}


def _big(kind, body_fn, sort):
    d = _DEPTH[0]
    if d >= len(BOUND):
        from .interp import Unsupported
        raise Unsupported("G-mode: big operators nested too deeply")
    _DEPTH[0] = d + 1
    try:
        body = z3.simplify(body_fn(BOUND[d]))
    finally:
        _DEPTH[0] = d
    key = (kind, d, body.sexpr())
    if key not in _BIG:
        f = z3.Function(f"{kind}#{len(_BIG)}", sym.I, sort)
        _BIG[key] = (f, body)
    return _BIG[key][0]


def bigsum(I, body_fn, n):
    """sum_{i<n} body(i); unfolding instances are registered with the QM."""
    f = _big("bigsum", body_fn, sym.R)
    if keying():
        return f(n)
    q = qm(I)
    key = ("bigsum", f.name())
    if key not in I.ghost.setdefault("big_registered", set()):
        I.ghost["big_registered"].add(key)
        q.links.append(f(z3.IntVal(0)) == 0)
        q.foralls.append((None, lambda t: f(t + 1) == f(t) + body_fn(t)))
    akey = (f.name(), z3.simplify(n).get_id())
    if akey not in q.app_keys:
        q.app_keys.add(akey)
        if not q.instantiating:
            q.big_apps.append(("bigsum", f, body_fn, n))
    return f(n)


def bigprod(I, body_fn, n):
    f = _big("bigprod", body_fn, sym.R)
    if keying():
        return f(n)
    q = qm(I)
    key = ("bigprod", f.name())
    if key not in I.ghost.setdefault("big_registered", set()):
        I.ghost["big_registered"].add(key)
        q.links.append(f(z3.IntVal(0)) == 1)
        if not q.instantiating:
            # (products that only appear inside instantiated facts are used as opaque terms)
            q.foralls.append((None, lambda t: f(t + 1) == f(t) * body_fn(t)))
        I.ghost.setdefault("bigprod_bodies", {})[f.name()] = (f, body_fn)
        # cons lemma: the product over [a] ++ L is a times the product over L
        body = z3.simplify(body_fn(IDX))
        if z3.is_app(body) and body.decl().kind() == z3.Z3_OP_ITE and z3.is_eq(body.arg(0)):
            c = body.arg(0)
            sides = [c.arg(0), c.arg(1)]
            if any(x.get_id() == IDX.get_id() for x in sides) and any(z3.is_int_value(x) and x.as_long() == 0 for x in sides):
                head, tail = body.arg(1), body.arg(2)
                tail_fn = lambda t, tail=tail: z3.simplify(z3.substitute(tail, (IDX, z3.simplify(t + 1))))
                I.ghost.setdefault("cons_lemmas", []).append((f, head, tail_fn))
    akey = (f.name(), z3.simplify(n).get_id())
    if akey not in q.app_keys:
        q.app_keys.add(akey)
        if not q.instantiating:
            # (operators met only while instantiating are never compared extensionally)
            q.big_apps.append(("bigprod", f, body_fn, n))
        for (cf, head, tail_fn) in list(I.ghost.get("cons_lemmas", [])):
            if cf.name() == f.name():
                g = bigprod(I, tail_fn, z3.simplify(n - 1))
                q.links.append(z3.Implies(n >= 1, f(n) == head * g))
    return f(n)


def register_zero_lemma(I, body_fn, n):
    """prod_{i<n} body(i) = 0 as soon as one factor with index < n is 0 (induction on n; a
    trusted real-arithmetic fact, instantiated at the index terms in play)."""
    f = _big("bigprod", body_fn, sym.R)
    if keying():
        return
    key = ("zero", f.name(), z3.simplify(n).sexpr())
    if key in I.ghost.setdefault("big_registered", set()):
        return
    I.ghost["big_registered"].add(key)
    qm(I).foralls.append((n, lambda t: z3.Implies(body_fn(t) == 0, f(n) == 0)))


def forall_const(I, length, body_fn, tag):
    """A Bool constant B meaning  forall 0 <= i < length. body(i)  (no solver quantifier):
    B => body(t) for every index term t;  not B => body fails at the skolem witness w."""
    d = _DEPTH[0]
    _DEPTH[0] = d + 1
    try:
        body = z3.simplify(body_fn(BOUND[d]))
    finally:
        _DEPTH[0] = d
    key = ("forall", body.sexpr(), z3.simplify(length).sexpr())
    if keying():
        return z3.Bool("ALL?" + str(abs(hash(key)) % 10**12))       # a name only
    reg = I.ghost.setdefault("forall_consts", {})
    if key in reg:
        return reg[key]
    B = z3.Bool(f"ALL[{tag}#{len(reg)}]")
    w = z3.Int(f"w[{tag}#{len(reg)}]")
    q = qm(I)
    q.foralls.append((length, lambda t: z3.Implies(B, body_fn(t))))
    q.links.append(z3.Or(B, z3.And(w >= 0, w < length, z3.Not(body_fn(w)))))
    q.add_index(w, length)
    reg[key] = B
    return B


def bigunion(I, length, set_fn, tag):
    """U = union_{i<length} set(i) as a NameSet constant with instantiable facts."""
    d = _DEPTH[0]
    _DEPTH[0] = d + 1
    try:
        body = z3.simplify(set_fn(BOUND[d]))
    finally:
        _DEPTH[0] = d
    key = ("union", body.sexpr(), z3.simplify(length).sexpr())
    if keying():
        return z3.Const("UNION?" + str(abs(hash(key)) % 10**12), sym.NameSet)       # a name only
    reg = I.ghost.setdefault("union_consts", {})
    if key in reg:
        return reg[key]
    U = z3.Const(f"UNION[{tag}#{len(reg)}]", sym.NameSet)
    wf = z3.Function(f"wU[{tag}#{len(reg)}]", sym.Name, sym.I)
    q = qm(I)
    q.foralls.append((length, lambda t: sym.subset(set_fn(t), U)))

    def name_fact(n):
        q.add_index(wf(n), length)
        return z3.Implies(sym.member(n, U), z3.And(wf(n) >= 0, wf(n) < length, sym.member(n, set_fn(wf(n)))))
    q.name_facts.append(name_fact)
    q.links.append(z3.Implies(length <= 0, U == sym.empty_set()))
    reg[key] = U
    return U


def skolem_subset(I, A, B, tag):
    """Goal  A subset B  with the element skolemised: n in A => n in B for a fresh name n."""
    n = z3.Const(I.path.fresh_name(f"n!{tag}"), sym.Name)
    qm(I).add_name(n)
    return z3.Implies(sym.member(n, A), sym.member(n, B))


def shifted_index(u, i):
    """Index into the original list of the u-th entry of the list with entry i removed."""
    return z3.simplify(z3.If(u < i, u, u + 1))


def without_entry(body_fn, i):
    """Element function of the list with its i-th entry removed: u |-> body(u < i ? u : u+1)."""
    return lambda u: body_fn(shifted_index(u, i))


def bigprod_without(I, body_fn, i, n):
    """prod_{j<n, j != i} body(j) as a function of (i, n); at every index term i in play it is
    linked to the product over the list (of length n-1) with the i-th entry removed."""
    body = z3.simplify(body_fn(IDX))
    key = ("bigprodwo", body.sexpr())
    if key not in _BIG:
        _BIG[key] = (z3.Function(f"bigprodwo#{len(_BIG)}", sym.I, sym.I, sym.R), body)
    f = _BIG[key][0]
    rkey = ("bigprodwo", f.name(), z3.simplify(n).sexpr())
    if keying():
        return f(i, n)
    if rkey not in I.ghost.setdefault("big_registered", set()):
        I.ghost["big_registered"].add(rkey)
        qm(I).foralls.append((n, lambda t: f(t, n) == bigprod(I, without_entry(body_fn, t), z3.simplify(n - 1))))
    return f(i, n)


def bighash(I, body_fn, n):
    """hash of a sequence as a function of its element hashes (uninterpreted; pointwise equal
    sequences of equal length hash equally - extensionality link)."""
    f = _big("bighash", body_fn, sym.I)
    if keying():
        return f(n)
    q = qm(I)
    akey = (f.name(), z3.simplify(n).get_id())
    if akey not in q.app_keys:
        q.app_keys.add(akey)
        if not q.instantiating:
            q.big_apps.append(("bighash", f, body_fn, n))
    return f(n)
