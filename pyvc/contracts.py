"""Contracts of the recursive methods of Expression, applied at call sites on objects of
unknown class (children) - modular verification: a caller is checked against the callee's
contract, never its body.  The same contracts are what the per-class obligations prove
(props/*.py), which closes the structural induction.
"""
from __future__ import annotations
import z3
from . import sym, spec
from .values import *
from .interp import Raise, PathAbort, Unsupported, LazyOpt
from .builtin_contracts import SDict, NumBase, ViewBase

J_NESTED = 2          # nested n-ary arity bound (refined Add/Multiply children): 0..J

ABSTRACT_BASES = ("Expression", "UnaryExpression", "ParameterizedUnaryExpression",
                  "BinaryExpression", "NAryExpression")

# ghost memo protocol states
UNKNOWN, ALLNONE = "unknown", "allnone"


class ContractTable:
    def __init__(self, program, nested_arity=J_NESTED):
        self.prog = program
        self.nested_arity = nested_arity
        self.table = {
            "_evaluate": self.c_evaluate,
            "_reset_evaluation_cache": self.c_reset,
            "_numeric_partial": self.c_numeric_partial,
            "_compute_numeric_partials": self.c_compute_numeric_partials,
            "_synthetic_partial": self.c_synthetic_partial,
            "_compute_synthetic_partials": self.c_compute_synthetic_partials,
            "_take_reduction_step": self.c_refining("step"),
            "_normalize_fully_reduced": self.c_refining("nfr"),
            "_normalize": self.c_refining("norm"),
            "_fully_reduce": self.c_refining("fred"),
            "at": self.c_at,
            "_consolidate_expression_lacking_variables": self.c_consolidate,
            "__eq__": self.c_eq,
            "__ne__": self.c_ne,
            "__hash__": self.c_hash,
            "__str__": self.c_str,
            "__repr__": self.c_str,
        }
        base = program.classes["Expression"]
        self.inlinable_on_child = set()
        subs = [c for c in program.classes.values() if c is not base and c.is_subclass_of(base)]
        for name, fd in base.methods.items():
            if fd.is_abstract:
                continue
            if any(name in c.methods for c in subs):
                continue
            self.inlinable_on_child.add(name)

    def has(self, name):
        return name in self.table or name.startswith("_reduce_")

    # ------------------------------------------------------------------ children
    def make_child(self, I, name, cls=None):
        o = Obj(None, name, kind="child")
        o.ghost["tag"] = z3.Const(f"tag[{name}]", sym.ClsSort)
        o.ghost["vars"] = z3.Const(f"Vars[{name}]", sym.NameSet)
        o.ghost["fully_reduced"] = z3.Bool(f"fr[{name}]")
        o.ghost["eval_failed"] = z3.Bool(f"ef[{name}]")
        I.path.assume(o.ghost["tag"] != sym.CLS["Foreign"])
        I.ghost.setdefault("children", []).append(o)
        return o

    def make_foreign(self, I, name):
        o = Obj(None, name, kind="foreign")
        o.ghost["tag"] = sym.CLS["Foreign"]
        return o

    def child_isinstance(self, I, o, cls):
        if o.kind == "foreign":
            return False
        if cls.name == "Expression":
            return True
        if cls.name in ABSTRACT_BASES:
            if o.cls is not None:
                return o.cls.is_subclass_of(cls)
            members = [c for c in self.prog.concrete_expression_classes() if c.is_subclass_of(cls)]
            return I.path.branch(z3.Or(*[o.ghost["tag"] == sym.CLS[c.name] for c in members]), "isinstance-abstract")
        if cls.name not in sym.CLS:
            return False
        if o.cls is not None:
            return o.cls.is_subclass_of(cls)
        if I.path.branch(o.ghost["tag"] == sym.CLS[cls.name], f"isinstance({o.name},{cls.name})"):
            self.refine(I, o, cls)
            return True
        return False

    def child_attr(self, I, o, attr):
        if o.kind == "foreign":
            raise Raise(I.bi.make_exc("AttributeError", f"foreign object has no attribute {attr}"), I.where())
        if attr == "_variable_names":
            if "vars_obj" not in o.ghost:
                o.ghost["vars_obj"] = SSet(o.ghost["vars"], owner=o)       # the child's own set object
            return o.ghost["vars_obj"]
        if attr == "_is_fully_reduced":
            return o.ghost["fully_reduced"]
        if attr == "_evaluation_failed":
            return o.ghost["eval_failed"]
        if o.cls is not None:
            fd = o.cls.lookup(attr)
            if fd is not None and fd.is_property and attr != "_reducers":
                return I.call_funcdef(fd, [o], {})
        if attr in self.inlinable_on_child and not I.forced(attr):
            fd = self.prog.classes["Expression"].methods[attr]
            return BoundMethod(o, fd)
        if self.has(attr):
            return ContractMethod(o, attr)
        if o.cls is None and attr == "_inners" and "indexed" in o.ghost:
            # an operand of a symbolic-arity node that the path knows to be an n-ary node itself
            fam, idx = o.ghost["indexed"]
            nary = z3.Or(fam.tagF(idx) == sym.CLS["Add"], fam.tagF(idx) == sym.CLS["Multiply"])
            if I.path.branch(nary, f"{o.name}-is-n-ary"):
                from . import gexec
                return gexec.nested_operands(I, o)
            raise Raise(I.bi.make_exc("AttributeError", "object has no attribute _inners"), I.where())
        if o.cls is None:
            # an attribute of an object of unknown class: AttributeError for the classes
            # that lack it.  If no expression class has it, that is certain.
            owners = [c for c in self.prog.concrete_expression_classes() if attr in self.instance_attrs(c)]
            if not owners:
                raise Raise(I.bi.make_exc("AttributeError", f"expression object has no attribute {attr}"), I.where())
            # the object is of one of the classes that have the attribute (then its structure
            # becomes available), or of another class (AttributeError)
            depth = o.name.count("._inner") + o.name.count("._left") + o.name.count("._right") + o.name.count("._inners[")
            if depth >= 3:
                raise Unsupported(f"attribute {attr} of unknown-class object {o.name}: class case analysis deeper than 3 levels "
                                  f"(a loop or recursion over the tree that does not go through a method under contract)")
            opts = [o.ghost["tag"] == sym.CLS[c.name] for c in owners]
            opts.append(z3.And(*[o.ghost["tag"] != sym.CLS[c.name] for c in owners]))
            j = I.path.choose(opts, f"class-of({o.name})")
            if j == len(owners):
                raise Raise(I.bi.make_exc("AttributeError", f"object has no attribute {attr}"), I.where())
            self.refine(I, o, owners[j])
            return I.obj_getattr(o, attr)
        raise Unsupported(f"attribute {attr} of refined child {o.name}")

    def instance_attrs(self, cls):
        """Names an instance of cls answers to: methods / properties of the MRO and the
        fields its constructors assign (self.X = ...)."""
        import ast as _ast
        cache = self.__dict__.setdefault("_attr_cache", {})
        if cls.name not in cache:
            names = set()
            for c in cls.mro:
                names |= set(c.methods)
                init = c.methods.get("__init__")
                if init is not None:
                    for n in _ast.walk(init.node):
                        if isinstance(n, _ast.Attribute) and isinstance(n.ctx, _ast.Store) \
                                and isinstance(n.value, _ast.Name) and n.value.id == "self":
                            names.add(n.attr)
            cache[cls.name] = names
        return cache[cls.name]

    def child_setattr(self, I, o, attr, v):
        I.heap_log.append(("store", o, attr, I.where(), False))
        if attr == "_is_fully_reduced":
            o.ghost["fully_reduced"] = v if z3.is_expr(v) else z3.BoolVal(bool(v))
            return
        if attr == "_evaluation_failed":
            o.ghost["eval_failed"] = v if z3.is_expr(v) else z3.BoolVal(bool(v))
            return
        raise Unsupported(f"store to {attr} of child {o.name}")

    def after_construct(self, I, o):
        if getattr(o.cls, "name", None) == "Point":
            I.ghost.setdefault("points", {})[spec.point_name(I, o)] = o
        if getattr(o.cls, "name", None) in ("Partial", "Derivative", "Differential", "LocatedDifferential"):
            # a derivative object may have been queried any number of times before
            from .harness import arbitrary_history
            arbitrary_history(I, o)

    # ------------------------------------------------------------------ refinement
    def refine(self, I, o, cls):
        """The child is now known to be an instance of cls: materialise its structure by
        running the real constructor on fresh unknown grand-children / parameters (paths
        on which the constructor raises do not exist: the object was built)."""
        p = I.path
        name = o.name
        c = cls.name
        args, kwargs = [], {}
        if c == "Constant":
            args = [SNum(z3.Real(f"{name}.value"), z3.Bool(f"{name}.value_is_int"))]
        elif c == "Variable":
            args = [SName(z3.Const(f"{name}.name", sym.Name))]
        elif c in ("Add", "Multiply"):
            ar = z3.Int(f"{name}.arity")
            opts = [ar == j for j in range(self.nested_arity + 1)]
            j = p.choose(opts, f"arity({name})")
            I.ghost.setdefault("bounded", []).append(f"arity of nested {c} {name} <= {self.nested_arity}")
            args = [self.make_child(I, f"{name}._inners[{i}]") for i in range(j)]
        elif c in ("Minus", "Divide", "Power"):
            args = [self.make_child(I, f"{name}._left"), self.make_child(I, f"{name}._right")]
        elif c in ("NthPower", "NthRoot"):
            # class invariant (constructor contract, C16): the stored degree is a Python int >= 1
            args = [self.make_child(I, f"{name}._inner"), SNum(z3.Int(f"{name}.n"), True)]
        elif c in ("Exponential", "Logarithm"):
            args = [self.make_child(I, f"{name}._inner"),
                    SNum(z3.Real(f"{name}.base"), z3.Bool(f"{name}.base_is_int"))]
        else:
            args = [self.make_child(I, f"{name}._inner")]
        o.cls = cls
        self.run_init(I, o, cls, args, kwargs)
        # memo / flag fields are arbitrary on an existing object
        if "_value" in o.fields:
            o.fields["_value"] = LazyOpt(z3.Bool(f"{name}._value_is_none"),
                                         SNum(z3.Real(f"{name}._value"), z3.Bool(f"{name}._value_is_int")))
        o.fields.pop("_is_fully_reduced", None)
        o.fields.pop("_evaluation_failed", None)
        vn = o.fields.pop("_variable_names", None)
        if isinstance(vn, SSet):
            p.assume(o.ghost["vars"] == vn.term)
        # link the opaque denotation to the table
        # denotations requested before the refinement are opaque symbols: define them by
        # the table now; denotations requested from now on are read through the table
        for key, d in list(o.ghost.items()):
            if isinstance(key, tuple) and key[0] == "den":
                self._link_den(I, o, d, key[1])
        for h in o.ghost.pop("on_refine", []):
            h(I)

    def _link_den(self, I, o, d, ptname, pt=None):
        if pt is None:
            pt = I.ghost["points"][ptname]
        t = spec._table_den(I, o, pt)
        I.path.assume(d.D == t.D)
        I.path.assume(z3.Implies(d.D, d.V == t.V))
        for k in I.ghost.get("ambient_names", []):
            I.path.assume(z3.Implies(d.D, d.dV(k) == t.dV(k)))

    def run_init(self, I, o, cls, args, kwargs):
        init = cls.lookup("__init__")
        o.in_init = True
        try:
            I.call_funcdef(init, [o] + list(args), kwargs)
        except Raise:
            raise PathAbort()
        finally:
            o.in_init = False

    # ------------------------------------------------------------------ dispatch
    def apply(self, I, o, name, args, kwargs):
        if name.startswith("_reduce_"):
            return self.c_reducer(I, o, name, args, kwargs)
        return self.table[name](I, o, args, kwargs)

    # ------------------------------------------------------------------ memo protocol
    def coh_state(self, I, o):
        return I.ghost.setdefault("coh", {}).get(id(o), UNKNOWN)

    def set_coh(self, I, o, st):
        I.ghost.setdefault("coh", {})[id(o)] = st
        I.ghost.setdefault("coh_objs", {})[id(o)] = o

    def after_eval_family(self, I, fam, pt):
        """An evaluation-like call on every child of a family at pt (G-mode)."""
        coh = I.ghost.setdefault("coh", {})
        for oid, st in list(coh.items()):
            if st == ALLNONE:
                coh[oid] = ("coh", id(pt))
            elif isinstance(st, tuple) and st[1] != id(pt):
                coh[oid] = UNKNOWN

    def require_coherent(self, I, o, pt, who):
        if "indexed" in o.ghost:
            fam = o.ghost["indexed"][0]
            st = I.ghost.setdefault("coh_fam", {}).get(fam.name, UNKNOWN)
            ok = st == ALLNONE or st == ("coh", id(pt))
            I.path.require(z3.BoolVal(ok), f"memo:{who} requires Coherent({fam.name}[*])", f"memo state of the children is {st}")
            return
        st = self.coh_state(I, o)
        ok = st == ALLNONE or st == ("coh", id(pt))
        I.path.require(z3.BoolVal(ok), f"memo:{who} requires Coherent({o.name})",
                       f"memo state of {o.name} is {st if isinstance(st, str) else 'coherent at another point'}")

    def after_eval(self, I, o, pt):
        """Frame clause writes_coherent(p): only _value fields are written, each with
        V(node,p); so every other object's state moves allnone->coh(p), coh(q!=p)->unknown."""
        coh = I.ghost.setdefault("coh", {})
        for oid, st in list(coh.items()):
            if st == ALLNONE:
                coh[oid] = ("coh", id(pt))
            elif isinstance(st, tuple) and st[1] != id(pt):
                coh[oid] = UNKNOWN
        if "indexed" in o.ghost:
            I.ghost.setdefault("coh_fam", {})[o.ghost["indexed"][0].name] = ("coh", id(pt))
        else:
            coh[id(o)] = ("coh", id(pt))
            I.ghost.setdefault("coh_objs", {})[id(o)] = o

    # ------------------------------------------------------------------ contracts
    def _point(self, I, pt):
        if not (isinstance(pt, Obj) and pt.cls is not None and pt.cls.name == "Point"):
            raise Unsupported(f"contract called with non-point {pt!r}")
        I.ghost.setdefault("points", {})[spec.point_name(I, pt)] = pt
        return pt

    def _eval_outcome(self, I, o, pt, who, returns_S=True):
        """The three outcomes of an evaluation-like call: returns (D, and S for evaluation:
        a derivative query need not look up a coordinate, e.g. of a bare Variable),
        DomainError (not D), CoordinateMissing (not S)."""
        d = spec.den(I, o, pt)
        S = spec.supplies(I, o, pt)
        k = I.path.choose([z3.And(d.D, S) if returns_S else d.D, z3.Not(d.D), z3.Not(S)], f"{who}({o.name})")
        self.after_eval(I, o, pt)
        if k == 1:
            raise Raise(I.instantiate(self.prog.classes["DomainError"], ["(contract)"], {}), f"contract:{who}({o.name})")
        if k == 2:
            raise Raise(I.instantiate(self.prog.classes["CoordinateMissing"], ["(contract)"], {}), f"contract:{who}({o.name})")
        return d

    def c_evaluate(self, I, o, args, kwargs):
        pt = self._point(I, args[0])
        self.require_coherent(I, o, pt, "_evaluate")
        d = self._eval_outcome(I, o, pt, "_evaluate")
        return SNum(d.V, z3.Bool(I.path.fresh_name(f"{o.name}.value_is_int")))

    def c_reset(self, I, o, args, kwargs):
        self.set_coh(I, o, ALLNONE)
        return None

    def c_numeric_partial(self, I, o, args, kwargs):
        x, pt = args[0], self._point(I, args[1])
        self.require_coherent(I, o, pt, "_numeric_partial")
        d = self._eval_outcome(I, o, pt, "_numeric_partial", returns_S=False)
        k = I.bi.key_term(x)
        return SNum(d.dV(k), z3.Bool(I.path.fresh_name(f"{o.name}.partial_is_int")))

    def c_compute_numeric_partials(self, I, o, args, kwargs):
        acc, m, pt = args[0], args[1], self._point(I, args[2])
        self.require_coherent(I, o, pt, "_compute_numeric_partials")
        old = acc.fields["_numeric_partials"]
        # on a raising outcome the accumulator may hold partial contributions: havoc
        hv = z3.Function(I.path.fresh_name(f"acc.havoc<{o.name}>"), sym.Name, sym.R)
        acc.fields["_numeric_partials"] = SDict(base=ViewBase(lambda k: hv(k), f"havoc<{o.name}>"))
        I.heap_log.append(("mutate-acc", acc, None, I.where()))
        d = self._eval_outcome(I, o, pt, "_compute_numeric_partials", returns_S=False)
        mt = real_term(m)
        # returns: for every name k, acc'.get(k, 0) = acc.get(k, 0) + m * dV(k)
        acc.fields["_numeric_partials"] = SDict(base=ViewBase(
            lambda k: z3.simplify(acc_view(I, old, k) + mt * d.dV(k)), f"acc<{o.name}>"))
        return None

    def c_at(self, I, o, args, kwargs):
        pt = args[0]
        if not isinstance(pt, Obj):
            raise Unsupported("contract of at() with a bare number")
        pt = self._point(I, pt)
        d = self._eval_outcome(I, o, pt, "at")
        return SNum(d.V, z3.Bool(I.path.fresh_name(f"{o.name}.value_is_int")))

    # -- symbolic results --------------------------------------------------------------
    def _result_child(self, I, o, suffix):
        r = self.make_child(I, I.path.fresh_name(f"{o.name}.{suffix}"))
        return r

    def c_synthetic_partial(self, I, o, args, kwargs):
        x = I.bi.key_term(args[0])
        r = self._result_child(I, o, "sp")
        I.path.assume(sym.subset(r.ghost["vars"], spec.vars_of(I, o)))

        def link(I2, pt, dr):
            do = spec.den(I2, o, pt)
            I2.path.assume(z3.Implies(do.D, z3.And(dr.D, dr.V == do.dV(x))))
        r.ghost.setdefault("on_den", []).append(link)
        r.ghost["denotes"] = ("partial", o, x)
        return r

    def c_compute_synthetic_partials(self, I, o, args, kwargs):
        from . import synth
        return synth.contract_compute_synthetic_partials(self, I, o, args, kwargs)

    def c_refining(self, suffix):
        def contract(I, o, args, kwargs):
            r = self._result_child(I, o, suffix)
            self.assume_refines(I, o, r)
            return r
        return contract

    def assume_refines(self, I, o, r):
        I.path.assume(sym.subset(r.ghost["vars"], spec.vars_of(I, o)))

        def link(I2, pt, dr):
            do = spec.den(I2, o, pt)
            I2.path.assume(z3.Implies(do.D, z3.And(dr.D, dr.V == do.V)))
        r.ghost.setdefault("on_den", []).append(link)
        r.ghost["denotes"] = ("refines", o)
        # dens already materialised for o get the link when r's den is requested

    def c_consolidate(self, I, o, args, kwargs):
        """Constant folding: None, or Constant(c) where the receiver is variable-free and
        defined with value c (at every point)."""
        if not I.path.branch(z3.Bool(I.path.fresh_name("consolidate.fires")), "consolidate"):
            return None
        v = SNum(z3.Real(I.path.fresh_name(f"{o.name}.folded")), z3.Bool(I.path.fresh_name(f"{o.name}.folded_is_int")))
        r = I.instantiate(self.prog.classes["Constant"], [v], {})
        I.path.assume(spec.vars_of(I, o) == sym.empty_set())
        for pt in list(I.ghost.get("points", {}).values()):
            d = spec.den(I, o, pt)
            I.path.assume(z3.And(d.D, d.V == real_term(v)))
        I.call_log.append(("_consolidate_expression_lacking_variables", o.name, "fired"))
        return r

    def c_reducer(self, I, o, name, args, kwargs):
        """A rewrite rule: returns None or an expression that refines the receiver."""
        if I.path.branch(z3.Bool(I.path.fresh_name(f"{name}.fires")), name):
            r = self._result_child(I, o, name[len("_reduce_"):])
            self.assume_refines(I, o, r)
            I.call_log.append((name, o.name, "fired"))
            return r
        I.call_log.append((name, o.name, "declined"))
        return None

    # -- equality / hashing / printing --------------------------------------------------
    def c_eq(self, I, o, args, kwargs):
        from . import structural
        if getattr(o.cls, "name", None) == "Point":
            b = args[0]
            if isinstance(b, Obj) and getattr(b.cls, "name", None) == "Point":
                return I.bi.dict_equals(o.fields["_coordinates"], b.fields["_coordinates"])
            return False
        return structural.struct_eq(I, o, args[0])

    def c_ne(self, I, o, args, kwargs):
        r = self.c_eq(I, o, args, kwargs)
        return z3.Not(r) if z3.is_expr(r) else (not r)

    def c_hash(self, I, o, args, kwargs):
        from . import structural, hashing
        if getattr(o.cls, "name", None) == "Point":
            present, vals = hashing.items_arrays(I, o.fields["_coordinates"])
            return SNum(structural.hash_items(present, vals), True)
        return structural.struct_hash(I, o)

    def c_str(self, I, o, args, kwargs):
        return SStr([("print", o)])


def acc_view(I, d, k):
    """`d.get(k, 0)` as a pure term for a Name->number dict (entries over an optional base)."""
    t = z3.RealVal(0)
    if isinstance(d.base, ViewBase):
        t = d.base.view_fn(k)
    elif isinstance(d.base, NumBase):
        t = z3.If(z3.Select(d.base.present, k), z3.Select(d.base.vals, k), z3.RealVal(0))
    elif d.base is not None:
        raise Unsupported("acc_view over non-numeric base")
    for key, v in d.entries:
        t = z3.If(I.bi.key_term(key) == k, real_term(v), t)
    return z3.simplify(t)
