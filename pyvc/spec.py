"""Specification layer: the denotation D / V / dV / Vars of expression objects.

Written from the property statements (C01-C05), not from the code.  For a point p and an
expression object e:
  D(e,p)   e is inside its strict documented domain at p (all sub-expressions are)
  V(e,p)   the real number e denotes at p
  dV(e,p)(k)  the partial derivative of V(e,.) with respect to variable name k at p
  S(e,p)   p supplies every variable mentioned by e
Unknown-class children carry fresh symbols for these; objects of known class are read
through the table below from their (immutable) structural fields.
"""
from __future__ import annotations
import z3
from . import sym
from .values import *
from .builtin_contracts import SDict, NumBase


class Den:
    __slots__ = ("D", "V", "dV", "obj", "pt")

    def __init__(self, D, V, dV):
        self.D = D
        self.V = V
        self.dV = dV          # python callable: Name term -> Real term


def RV(x):
    return z3.RealVal(x)


# ---------------------------------------------------------------------------- points

def point_name(I, pt):
    if "ptname" not in pt.ghost:
        pt.ghost["ptname"] = I.path.fresh_name("pt")
    return pt.ghost["ptname"]


def _coords(pt):
    d = pt.fields.get("_coordinates")
    if not isinstance(d, SDict):
        raise TypeError(f"point without coordinates: {pt!r}")
    return d


def point_has(I, pt, k):
    """Bool term: does the point have a coordinate named k (pure, no forking)."""
    d = _coords(pt)
    t = z3.Select(d.base.present, k) if isinstance(d.base, NumBase) else z3.BoolVal(False)
    for key, _v in d.entries:
        t = z3.If(I.bi.key_term(key) == k, z3.BoolVal(True), t)
    return z3.simplify(t)


def point_val(I, pt, k):
    d = _coords(pt)
    t = z3.Select(d.base.vals, k) if isinstance(d.base, NumBase) else z3.RealVal(0)
    for key, v in d.entries:
        t = z3.If(I.bi.key_term(key) == k, real_term(v), t)
    return z3.simplify(t)


def point_present_set(I, pt):
    d = _coords(pt)
    t = d.base.present if isinstance(d.base, NumBase) else sym.empty_set()
    for key, _v in d.entries:
        t = z3.Store(t, I.bi.key_term(key), z3.BoolVal(True))
    return t


# ---------------------------------------------------------------------------- structure

def children(obj):
    """Structural children of a known-class expression object."""
    c = obj.cls.name
    f = obj.fields
    if c in ("Constant", "Variable"):
        return []
    if c in ("Add", "Multiply"):
        return list(f["_inners"])
    if c in ("Minus", "Divide", "Power"):
        return [f["_left"], f["_right"]]
    return [f["_inner"]]


def is_slist(v):
    from . import gmode
    return isinstance(v, gmode.SList)


def is_known(obj):
    return obj.cls is not None and obj.kind != "foreign"


def vars_of(I, obj):
    """Vars(e): the set of variable names e mentions (structural definition)."""
    if "custom_vars" in obj.ghost:
        return obj.ghost["custom_vars"](I)
    if obj.cls is None:
        return obj.ghost["vars"]
    c = obj.cls.name
    if c in ("Add", "Multiply") and is_slist(obj.fields.get("_inners")):
        from . import gmode
        sl = obj.fields["_inners"]
        if isinstance(sl, gmode.ReplacedList):
            # variables of the other entries: a set W(j) with W(j) subset Vars(whole list) (one-sided, sound)
            W = z3.Function(f"VarsWithout[{sl.base.tag}]", z3.IntSort(), sym.NameSet)
            t = W(sl.j)
            if not gmode.keying():
                whole = gmode.bigunion(I, sl.base.length, lambda u: vars_of(I, sl.base.elem(u)), f"Vars({sl.base.tag})")
                gmode.qm(I).links.append(sym.subset(t, whole))
            return sym.union(t, vars_of(I, sl.new))
        if isinstance(sl, gmode.SnocList):
            t = gmode.bigunion(I, sl.rest.length, lambda u: vars_of(I, sl.rest.elem(u)), f"Vars({obj.name})")
            for pobj in sl.suffix:
                t = sym.union(t, vars_of(I, pobj))
            return t
        if isinstance(sl, gmode.ConcatList):
            t = sym.empty_set()
            for i_, part in enumerate(sl.parts):
                t = sym.union(t, gmode.bigunion(I, part.length, lambda u, part=part: vars_of(I, part.elem(u)), f"Vars({obj.name}#{i_})"))
            for pobj in sl.suffix:
                t = sym.union(t, vars_of(I, pobj))
            return t
        if isinstance(sl, gmode.ConsList):
            wo = getattr(sl.rest, "without_of", None)
            if wo is not None:
                # the variables of a list with one entry removed: a set W(j) of which only the
                # upper bound  W(j) subset Vars(whole list)  is stated (sound; enough for results)
                entries, j = wo
                W = z3.Function(f"VarsWithout[{entries.tag}]", z3.IntSort(), sym.NameSet)
                t = W(j)
                if not gmode.keying():
                    whole = gmode.bigunion(I, entries.length, lambda u: vars_of(I, entries.elem(u)), f"Vars({entries.tag})")
                    gmode.qm(I).links.append(sym.subset(t, whole))
            else:
                t = gmode.bigunion(I, sl.rest.length, lambda u: vars_of(I, sl.rest.elem(u)), f"Vars({obj.name})")
            for pobj in sl.prefix:
                t = sym.union(vars_of(I, pobj), t)
            return t
        return gmode.bigunion(I, sl.length, lambda t: vars_of(I, sl.elem(t)), f"Vars({obj.name})")
    if c == "Constant":
        return sym.empty_set()
    if c == "Variable":
        return sym.singleton(I.bi.key_term(obj.fields["name"]))
    t = sym.empty_set()
    for ch in children(obj):
        t = sym.union(t, vars_of(I, ch))
    return t


def supplies(I, obj, pt):
    return sym.subset(vars_of(I, obj), point_present_set(I, pt))


def param(obj):
    return obj.fields["_parameter"]


# ---------------------------------------------------------------------------- denotation

def root_defined(x, n):
    """Strict domain of the n-th root (n Int term >= 1)."""
    return z3.Or(n == 1, z3.And(x != 0, z3.Or(n % 2 == 1, x > 0)))


def den(I, obj, pt):
    """Denotation of an expression object at point object pt."""
    key = ("den", point_name(I, pt))
    if key in obj.ghost:
        return obj.ghost[key]
    if "custom_den" in obj.ghost:
        d = obj.ghost["custom_den"](I, pt)          # virtual nodes of loop invariants
    elif obj.cls is None or obj.ghost.get("opaque_den"):
        d = _child_den(I, obj, pt)
    else:
        d = _table_den(I, obj, pt)
    obj.ghost[key] = d
    for hook in obj.ghost.get("on_den", []):
        hook(I, pt, d)
    return d


def _child_den(I, obj, pt):
    pn = point_name(I, pt)
    if "indexed" in obj.ghost:
        fam, idx = obj.ghost["indexed"]
        Df, Vf, dVf = fam.den_funcs(pn)
        return Den(Df(idx), Vf(idx), lambda k: dVf(idx, k))
    D = z3.Bool(f"D[{obj.name}|{pn}]")
    V = z3.Real(f"V[{obj.name}|{pn}]")
    dvf = z3.Function(f"dV[{obj.name}|{pn}]", sym.Name, sym.R)
    d = Den(D, V, lambda k: dvf(k))
    # a variable that does not occur has partial 0 (instances for the ambient names are
    # added by the drivers through absent_variable_facts)
    # variable-free expressions denote the same at every point
    for k2, other in list(obj.ghost.items()):
        if isinstance(k2, tuple) and k2[0] == "den":
            I.path.assume(z3.Implies(obj.ghost["vars"] == sym.empty_set(),
                                     z3.And(other.D == D, other.V == V)))
    return d


def absent_variable_facts(I, obj, pt, names):
    """Induction hypothesis for children: k not in Vars(c) => dV(c)(k) = 0."""
    d = den(I, obj, pt)
    return [z3.Implies(z3.Not(sym.member(k, vars_of(I, obj))), d.dV(k) == 0) for k in names]


def _table_den(I, obj, pt):
    c = obj.cls.name
    f = obj.fields
    if c == "Constant":
        return Den(z3.BoolVal(True), real_term(f["value"]), lambda k: RV(0))
    if c == "Variable":
        n = I.bi.key_term(f["name"])
        return Den(z3.BoolVal(True), point_val(I, pt, n), lambda k: z3.If(k == n, RV(1), RV(0)))
    if c in ("Add", "Multiply") and is_slist(f.get("_inners")):
        return _gmode_den(I, obj, pt)
    ds = [den(I, ch, pt) for ch in children(obj)]
    if c == "Add":
        V = RV(0)
        for d in ds:
            V = V + d.V
        return Den(sym.conj([d.D for d in ds]), V,
                   lambda k: _sum([d.dV(k) for d in ds]))
    if c == "Multiply":
        V = RV(1)
        for d in ds:
            V = V * d.V
        def dv(k):
            terms = []
            for i, d in enumerate(ds):
                t = d.dV(k)
                for j, e in enumerate(ds):
                    if j != i:
                        t = t * e.V
                terms.append(t)
            return _sum(terms)
        return Den(sym.conj([d.D for d in ds]), V, dv)
    if c == "Minus":
        a, b = ds
        return Den(z3.And(a.D, b.D), a.V - b.V, lambda k: a.dV(k) - b.dV(k))
    if c == "Negation":
        (a,) = ds
        return Den(a.D, -a.V, lambda k: -a.dV(k))
    if c == "Divide":
        a, b = ds
        return Den(z3.And(a.D, b.D, b.V != 0), a.V / b.V,
                   lambda k: a.dV(k) / b.V - a.V * b.dV(k) / (b.V * b.V))
    if c == "Reciprocal":
        (a,) = ds
        return Den(z3.And(a.D, a.V != 0), 1 / a.V, lambda k: -a.dV(k) / (a.V * a.V))
    if c == "Power":
        a, b = ds
        val = sym.exp(b.V * sym.ln(a.V))
        return Den(z3.And(a.D, b.D, a.V > 0), val,
                   lambda k: val * (b.dV(k) * sym.ln(a.V) + b.V * a.dV(k) / a.V))
    if c == "NthPower":
        (a,) = ds
        n = num_term(param(obj))
        return Den(a.D, sym.ipow(a.V, n),
                   lambda k: z3.If(n == 1, a.dV(k), sym.to_real(n) * sym.ipow(a.V, n - 1) * a.dV(k)))
    if c == "NthRoot":
        (a,) = ds
        n = num_term(param(obj))
        r = sym.root(a.V, n)
        return Den(z3.And(a.D, root_defined(a.V, n)), r,
                   lambda k: z3.If(n == 1, a.dV(k), a.dV(k) / (sym.to_real(n) * sym.ipow(r, n - 1))))
    if c == "Exponential":
        (a,) = ds
        b = real_term(param(obj))
        val = sym.exp(a.V * sym.ln(b))
        return Den(a.D, val, lambda k: sym.ln(b) * val * a.dV(k))
    if c == "Logarithm":
        (a,) = ds
        b = real_term(param(obj))
        return Den(z3.And(a.D, a.V > 0), sym.ln(a.V) / sym.ln(b),
                   lambda k: a.dV(k) / (a.V * sym.ln(b)))
    if c == "Sine":
        (a,) = ds
        return Den(a.D, sym.sin(a.V), lambda k: sym.cos(a.V) * a.dV(k))
    if c == "Cosine":
        (a,) = ds
        return Den(a.D, sym.cos(a.V), lambda k: -sym.sin(a.V) * a.dV(k))
    raise KeyError(c)


def _partition_lemma(I, obj, part, pt):
    """The sum (product) over a list is the sum (product) over the entries that satisfy a
    predicate combined with that over the others (spec/lemmas.lean: ax_bigsum_partition,
    ax_bigprod_partition)."""
    from . import gmode
    twin = getattr(part, "partition_twin", None)
    fo = getattr(part, "filter_of", None)
    if twin is None or fo is None or gmode.keying():
        return
    whole = fo[0]
    big = gmode.bigsum if obj.cls.name == "Add" else gmode.bigprod
    a = big(I, lambda t: den(I, part.elem(t), pt).V, part.length)
    b = big(I, lambda t: den(I, twin.elem(t), pt).V, twin.length)
    w = big(I, lambda t: den(I, whole.elem(t), pt).V, whole.length)
    gmode.qm(I).links.append(w == (a + b if obj.cls.name == "Add" else a * b))


def _negated_operands_lemma(I, obj, part, pt):
    """part = the operands u_i of a list of Negation nodes:  prod_i (-V(u_i)) = (-1)^c * prod_i V(u_i),
    sum_i (-V(u_i)) = - sum_i V(u_i)   (spec/lemmas.lean: ax_bigprod_neg, ax_bigsum_neg)."""
    from . import gmode
    src = getattr(part, "inner_of", None)
    if src is None or getattr(src, "guard_class", None) != "Negation" or gmode.keying():
        return
    c = part.length
    inner_v = lambda t: den(I, part.elem(t), pt).V
    neg_v = lambda t: -den(I, part.elem(t), pt).V
    if obj.cls.name == "Add":
        gmode.qm(I).links.append(gmode.bigsum(I, neg_v, c) == -gmode.bigsum(I, inner_v, c))
    else:
        gmode.qm(I).links.append(gmode.bigprod(I, neg_v, c) == z3.If(c % 2 == 0, 1, -1) * gmode.bigprod(I, inner_v, c))


def _no_dv(name):
    from .interp import Unsupported
    raise Unsupported("G-mode: derivative of a node with a split operand list")


def _gmode_den(I, obj, pt):
    """Add / Multiply of symbolic arity: big operators over the children family."""
    from . import gmode
    sl = obj.fields["_inners"]
    if isinstance(sl, gmode.ReplacedList):
        # operands = a list with its j-th entry replaced by `new`:
        #   sum = sum(whole) - V_j + V_new;  product = prodwo(j, n) * V_new  with  prod(whole) = V_j * prodwo(j, n)
        #   (spec/lemmas.lean: ax_bigprod_split_entry);  definedness: (all entries defined) and D_new => defined
        base, j, dn = sl.base, sl.j, den(I, sl.new, pt)
        ek = lambda t: den(I, base.elem(t), pt)
        DW = z3.Function(f"Dwithout[{base.tag}|{point_name(I, pt)}]", z3.IntSort(), z3.BoolSort())
        if obj.cls.name == "Add":
            V = gmode.bigsum(I, lambda t: ek(t).V, base.length) - ek(j).V + dn.V
        else:
            pw = gmode.bigprod_without(I, lambda u: ek(u).V, j, base.length)
            V = pw * dn.V
            if not gmode.keying():
                gmode.qm(I).links.append(gmode.bigprod(I, lambda t: ek(t).V, base.length) == ek(j).V * pw)
        if not gmode.keying():
            allD = gmode.forall_const(I, base.length, lambda t: ek(t).D, f"D({base.tag})")
            gmode.qm(I).links.append(z3.Implies(allD, DW(j)))
        return Den(z3.And(DW(j), dn.D), V, _no_dv)
    if isinstance(sl, gmode.ConcatList):
        big = gmode.bigsum if obj.cls.name == "Add" else gmode.bigprod
        Ds, V = [], None
        for i_, part in enumerate(sl.parts):
            pk = lambda t, part=part: den(I, part.elem(t), pt)
            Ds.append(gmode.forall_const(I, part.length, lambda t, pk=pk: pk(t).D, f"D({obj.name}#{i_})"))
            v = big(I, lambda t, pk=pk: pk(t).V, part.length)
            V = v if V is None else ((V + v) if obj.cls.name == "Add" else (V * v))
            _partition_lemma(I, obj, part, pt)
            _negated_operands_lemma(I, obj, part, pt)
        for pobj in sl.suffix:
            d = den(I, pobj, pt)
            Ds.append(d.D)
            V = (V + d.V) if obj.cls.name == "Add" else (V * d.V)
        return Den(z3.And(*Ds), V, _no_dv)
    if isinstance(sl, gmode.SnocList):
        suf = [den(I, pobj, pt) for pobj in sl.suffix]
        rk = lambda t: den(I, sl.rest.elem(t), pt)
        D = z3.And(gmode.forall_const(I, sl.rest.length, lambda t: rk(t).D, f"D({obj.name})"), *[d.D for d in suf])
        big = gmode.bigsum if obj.cls.name == "Add" else gmode.bigprod
        V = big(I, lambda t: rk(t).V, sl.rest.length)
        for d in suf:
            V = (V + d.V) if obj.cls.name == "Add" else (V * d.V)
        _partition_lemma(I, obj, sl.rest, pt)
        return Den(D, V, _no_dv)
    if isinstance(sl, gmode.ConsList):
        # a few known operands in front of a symbolic-length list: the sum / product splits
        # (cons lemma); only D and V are defined for such nodes (they are results, not receivers)
        pre = [den(I, pobj, pt) for pobj in sl.prefix]
        rk = lambda t: den(I, sl.rest.elem(t), pt)
        wo = getattr(sl.rest, "without_of", None)
        if wo is not None and obj.cls.name == "Multiply":
            # operands = known prefix ++ (a list with its j-th entry removed): the product is
            # prefix * prodwo(j, n) (the two-argument function the spec of the product rule uses);
            # definedness is a predicate DW(j) of which only  (all entries defined) => DW(j)  is stated
            entries, j = wo
            ek = lambda t: den(I, entries.elem(t), pt)
            DW = z3.Function(f"Dwithout[{entries.tag}|{point_name(I, pt)}]", z3.IntSort(), z3.BoolSort())
            if not gmode.keying():
                allD = gmode.forall_const(I, entries.length, lambda t: ek(t).D, f"D({entries.tag})")
                gmode.qm(I).links.append(z3.Implies(allD, DW(j)))
            V = gmode.bigprod_without(I, lambda u: ek(u).V, j, entries.length)
            for d in reversed(pre):
                V = d.V * V
            return Den(z3.And(*[d.D for d in pre], DW(j)), V, _no_dv)
        D = z3.And(*[d.D for d in pre], gmode.forall_const(I, sl.rest.length, lambda t: rk(t).D, f"D({obj.name})"))
        if obj.cls.name == "Add":
            V = gmode.bigsum(I, lambda t: rk(t).V, sl.rest.length)
            for d in pre:
                V = d.V + V
        else:
            V = gmode.bigprod(I, lambda t: rk(t).V, sl.rest.length)
            for d in reversed(pre):
                V = d.V * V

        return Den(D, V, _no_dv)
    k = sl.length
    dk = lambda t: den(I, sl.elem(t), pt)
    D = gmode.forall_const(I, k, lambda t: dk(t).D, f"D({obj.name})")
    fo = getattr(sl, "filter_of", None)
    if fo is not None and not gmode.keying():
        # filter lemma (spec/lemmas.lean: ax_bigsum_filter / ax_bigprod_filter): the sum (product)
        # over the kept entries is the sum (product) over all entries, unless some dropped entry
        # is not the neutral element
        whole, sigma, pred = fo
        wk = lambda t: den(I, whole.elem(t), pt)
        neutral = 0 if obj.cls.name == "Add" else 1
        big = gmode.bigsum if obj.cls.name == "Add" else gmode.bigprod
        w = z3.Int(I.path.fresh_name("w!dropped"))
        gmode.qm(I).add_index(w, whole.length)
        gmode.qm(I).links.append(z3.Or(big(I, lambda t: dk(t).V, k) == big(I, lambda t: wk(t).V, whole.length),
                                       z3.And(w >= 0, w < whole.length, z3.Not(pred(w)), wk(w).V != neutral)))
    if obj.cls.name == "Add":
        V = gmode.bigsum(I, lambda t: dk(t).V, k)
        return Den(D, V, lambda name: gmode.bigsum(I, lambda t: dk(t).dV(name), k))
    V = gmode.bigprod(I, lambda t: dk(t).V, k)
    gmode.register_zero_lemma(I, lambda t: dk(t).V, k)

    def dv(name):
        # sum_i dV_i * prod_{j != i} V_j : the product over the list with its i-th entry removed
        return gmode.bigsum(I, lambda t: dk(t).dV(name) * gmode.bigprod_without(I, lambda u: dk(u).V, t, k), k)
    return Den(D, V, dv)


def _sum(ts):
    r = RV(0)
    for t in ts:
        r = r + t
    return r
