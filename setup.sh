#!/bin/sh
# offline setup: only verifies that the tooling the checks need is importable
set -e
cd "$(dirname "$0")"
python3-vt -c "import z3, cvc5, mpmath; print('z3', z3.get_version_string())"
test -d /repo/src/smoothmath
echo setup-ok
