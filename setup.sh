#!/bin/sh
# offline setup: checks that the tooling the checks need is importable, and machine-checks the
# Lean lemma file (non-fatal: the per-property checks record whether its hash was verified)
set -e
cd "$(dirname "$0")"
python3-vt -c "import z3, cvc5, mpmath; print('z3', z3.get_version_string())"
test -d /repo/src/smoothmath
if command -v lean >/dev/null 2>&1; then
  timeout 1500 ./check lemmas || echo "setup: WARNING lean lemma check did not succeed on this machine"
fi
echo setup-ok
