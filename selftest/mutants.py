"""Engine self-test (DESIGN §9): property-breaking mutants that every check must catch, and
benign mutants on which it must stay green.  Applied to a scratch copy of /repo/src (never to
/repo); run with  ./check selftest  [--only <substring>]."""

P = "smoothmath/_private/"
E = P + "expression/"
B = P + "base_expression/"

# (id, property, file, old, new, --only filter, expect_violation)
MUTANTS = [
    ("c01-divide-swapped", "C01", P + "math_functions.py", "        return x / y", "        return y / x", "Divide", True),
    ("c01-odd-root-loses-minus", "C01", P + "math_functions.py", "return - ((- x) ** (1 / n))", "return ((- x) ** (1 / n))", "NthRoot", True),
    ("c01-empty-product", "C01", P + "math_functions.py", "    product = 1.0\n", "    product = 0.0\n", "Multiply", True),
    ("c02-even-to-odd-guard", "C02", E + "nth_root.py", "if util.is_even(self.n) and inner_value < 0", "if util.is_odd(self.n) and inner_value < 0", "NthRoot", True),
    ("c02-log-guard-removed", "C02", E + "logarithm.py", "        if inner_value == 0:\n            raise er.DomainError(\"Logarithm(x) blows up around x = 0\")\n        elif inner_value < 0:\n            raise er.DomainError(\"Logarithm(x) is undefined for x < 0\")", "        pass", "Logarithm", True),
    ("c02-benign-redundant-guard", "C02", E + "reciprocal.py", "        if inner_value == 0:\n            raise er.DomainError(\"Reciprocal(x) blows up around x = 0\")", "        pass", "Reciprocal", False),
    ("c03-cosine-sign", "C03", E + "cosine.py", "return mf.multiply(mf.negation(mf.sine(inner_value)), multiplier)", "return mf.multiply(mf.sine(inner_value), multiplier)", "Cosine", True),
    ("c03-product-rule", "C03", E + "multiply.py", "                *util.list_without_entry_at(inner_values, i)\n            )\n            for (i, inner) in enumerate(self._inners)\n        ))", "                *inner_values\n            )\n            for (i, inner) in enumerate(self._inners)\n        ))", "Multiply", True),
    ("c03-nthpower-n-slip", "C03", E + "nth_power.py", "mf.nth_power(inner_value, n - 1),", "mf.nth_power(inner_value, n),", "NthPower", True),
    ("c04-overwrite", "C04", P + "accumulators.py", "self._numeric_partials[variable_name] = existing + contribution", "self._numeric_partials[variable_name] = contribution", "Variable", True),
    ("c04-minus-sign", "C04", E + "minus.py", "self._right._compute_numeric_partials(accumulator, mf.negation(multiplier), point)", "self._right._compute_numeric_partials(accumulator, multiplier, point)", "Minus", True),
    ("c05-reciprocal-loses-negation", "C05", E + "reciprocal.py", "return ex.Negation(ex.Divide(multiplier, ex.NthPower(self._inner, n = 2)))", "return ex.Divide(multiplier, ex.NthPower(self._inner, n = 2))", "Reciprocal", True),
    ("c05-root-exponent-slip", "C05", E + "nth_root.py", "ex.Multiply(ex.Constant(n), ex.NthPower(self, n - 1))", "ex.Multiply(ex.Constant(n), ex.NthPower(self, n))", "NthRoot", True),
    ("c05-reverse-minus-sign", "C05", E + "minus.py", "self._right._compute_synthetic_partials(accumulator, ex.Negation(multiplier))", "self._right._compute_synthetic_partials(accumulator, multiplier)", "Minus", True),
    ("c05-reverse-overwrite", "C05", P + "accumulators.py", "next = existing + contribution if existing is not None else contribution", "next = contribution", "Variable", True),
    ("c05-power-uses-wrong-base", "C05", E + "power.py", "return ex.Multiply(ex.Logarithm(self._left, base = math.e), self, multiplier)", "return ex.Multiply(ex.Logarithm(self._right, base = math.e), self, multiplier)", "Power", True),
    ("c07-d3-reintroduced", "C07", E + "power.py", "            # The exponent must still be defined at the point.\n            self._right._evaluate(point)\n            return 0", "            return 0", "Power", True),
    ("c08-odd-root-of-negation-loses-parity", "C08", E + "nth_root.py", "isinstance(self._inner, ex.Negation) and\n            util.is_odd(self.n)", "isinstance(self._inner, ex.Negation)", "NthRoot._reduce_odd", True),
    ("c08-exp-of-log-loses-base-test", "C08", E + "exponential.py", "isinstance(self._inner, ex.Logarithm) and\n            self.base == self._inner.base", "isinstance(self._inner, ex.Logarithm)", "Exponential._reduce_exponential_of_logarithm", True),
    ("c08-flattening-keeps-nested", "C08", E + "add.py", "after = self._inners[i + 1:]", "after = self._inners[i:]", "_reduce_by_flattening_nested_sums", True),
    ("c08-log-of-power-any-parity", "C08", E + "logarithm.py", "isinstance(self._inner, ex.NthPower) and\n            util.is_odd(self._inner.n)", "isinstance(self._inner, ex.NthPower)", "Logarithm._reduce_logarithm_of_nth_power", True),
    ("c08-benign-rename", "C08", E + "negation.py", "return self._inner._inner", "u = self._inner._inner\n            return u", "Negation._reduce", False),
    ("c12-eq-ignores-parameter", "C12", B + "parameterized_unary_expression.py", "return super().__eq__(other) and (other._parameter == self._parameter)", "return super().__eq__(other)", "NthPower.__eq__", True),
    ("c12-hash-uses-order-free-sum", "C12", B + "binary_expression.py", "return hash((util.get_class_name(self), self._left, self._right))", "return hash((util.get_class_name(self), self._left))", "Minus.__hash__", False),
    ("c13-drops-n", "C13", E + "nth_power.py", "return f\"NthPower({self._inner}, n={self.n})\"", "return f\"NthPower({self._inner})\"", "NthPower.__repr__", True),
    ("c13-d1-reintroduced", "C13", E + "nth_root.py", "return f\"NthRoot({self._inner}, n={self.n})\"", "return f\"NthPower({self._inner}, n={self.n})\"", "NthRoot", True),
    ("c13-benign-positional", "C13", E + "nth_power.py", "return f\"NthPower({self._inner}, n={self.n})\"", "return f\"NthPower({self._inner}, {self.n})\"", "NthPower.__repr__", False),
    ("c15-sub-builds-add", "C15", B + "expression.py", "return ex.Minus(self, other)", "return ex.Add(self, ex.Negation(other))", "__sub__", True),
    ("c15-pow-rounds", "C15", B + "expression.py", "        n = util.integer_from_integral_float(exponent)\n        if isinstance(n, int):", "        n = round(exponent)\n        if isinstance(n, int):", "__pow__", True),
    ("c16-n-zero-accepted", "C16", E + "nth_power.py", "elif i <= 0:", "elif i < 0:", "NthPower.__init__", True),
    ("c16-log-base-one", "C16", E + "logarithm.py", "        elif base == 1:\n            raise er.DomainError(\"Logarithm(x) cannot have base = 1\")\n\n    @property", "\n    @property", "Logarithm.__init__", True),
]

MUTANTS += [
    ("c12-point-eq-ignores-class", "C12", P + "point.py", "(other.__class__ == self.__class__) and\n            (other._coordinates == self._coordinates)", "(other._coordinates == self._coordinates)", "Point.__eq__", True),
    ("c12-point-hash-unsorted", "C12", P + "point.py", "data = tuple(sorted(self._coordinates.items()))", "data = tuple(self._coordinates.items())", "Point.__hash__", True),
    ("c12-partial-eq-ignores-variable", "C12", P + "partial.py", "(self._original_expression == other._original_expression) and\n            (self._variable_name == other._variable_name)", "(self._original_expression == other._original_expression)", "Partial.__eq__", True),
    ("c12-located-hash-ignores-point-benign", "C12", P + "located_differential.py", "return hash((\"LocatedDifferential\", self._original_expression, self._point))", "return hash((\"LocatedDifferential\", self._original_expression))", "LocatedDifferential.__hash__", False),
    ("c12-derivative-hash-id", "C12", P + "derivative.py", "return hash((\"Derivative\", self._original_expression))", "return hash((\"Derivative\", id(self)))", "Derivative.__hash__", True),
    ("c13-partial-prints-bare-name", "C13", P + "partial.py", "variable_string = f\"Variable(\\\"{self._variable_name}\\\")\"", "variable_string = f\"{self._variable_name}\"", "Partial.__repr__", True),
    ("c13-point-drops-values", "C13", P + "point.py", "f'{variable_name}={value}'", "f'{variable_name}'", "Point[k=2]", True),
    ("c14-coordinate-defaults-to-zero", "C14", P + "point.py", "value = self._coordinates.get(variable_name, None)", "value = self._coordinates.get(variable_name, 0)", "Point.coordinate", True),
    ("c14-binary-forgets-right-variables", "C14", B + "binary_expression.py", "variable_names = left._variable_names.union(right._variable_names)", "variable_names = left._variable_names", "Minus", True),
    ("c14-number-for-two-variables", "C14", B + "expression.py", "    elif variable_names_count == 0:\n        return \"whatever\"\n    else:\n        raise Exception(exception_message)", "    else:\n        return \"whatever\"", "Minus.at(number)", True),
]

MUTANTS += [
    ("c10-inplace-edit-in-reducer", "C10", E + "add.py", "        return Add(*non_zeros)", "        self._inners.clear()\n        self._inners.extend(non_zeros)\n        return Add(*non_zeros)", "frame-analysis", True),
    ("c10-parameter-written-after-construction", "C10", E + "nth_power.py", "        if isinstance(self._inner, ex.NthPower):\n            return ex.NthPower(self._inner._inner, self.n * self._inner.n)", "        if isinstance(self._inner, ex.NthPower):\n            self._parameter = self.n * self._inner.n\n            return ex.NthPower(self._inner._inner, self._parameter)", "", True),
    ("c10-eq-consults-memo", "C10", B + "unary_expression.py", "return (other.__class__ == self.__class__) and (other._inner == self._inner)", "return (other.__class__ == self.__class__) and (other._inner == self._inner) and (other._value == self._value)", "frame-analysis", True),
    ("c10-constructor-aliases-caller-list", "C10", B + "n_ary_expression.py", "        self._inners = list(args)", "        self._inners = args", "", False),
]

MUTANTS += [
    ("c18-inners-from-set", "C18", B + "n_ary_expression.py", "        self._inners = list(args)", "        self._inners = list(set(args))", "order-analysis", True),
    ("c18-join-over-set", "C18", P + "differential.py", "        return f\"Differential({self._original_expression})\"", "        return f\"Differential({self._original_expression})\" + \", \".join(self._original_expression._variable_names)[:0]", "order-analysis", True),
    ("c18-order-sensitive-loop", "C18", P + "accumulators.py", "        results = {}\n        for variable_name in variable_names:\n            results[variable_name] = self._numeric_partials.get(variable_name, 0)\n        return results", "        results = {}\n        total = 0\n        for variable_name in variable_names:\n            total = total + self._numeric_partials.get(variable_name, 0)\n            results[variable_name] = self._numeric_partials.get(variable_name, 0) + 0 * total\n        return results", "order-analysis", True),
    ("c18-hash-leaks", "C18", P + "partial.py", "        return hash((\"Partial\", self._original_expression))", "        return hash((\"Partial\", self._original_expression)) + (hash(self._variable_name) % 1)", "order-analysis", False),
    ("c18-id-in-repr", "C18", P + "derivative.py", "        return f\"Derivative({self._original_expression})\"", "        return f\"Derivative({self._original_expression})\" + str(id(self))[:0]", "order-analysis", True),
]

MUTANTS += [
    ("c09-at-loses-reset", "C09", B + "expression.py", "        if isinstance(point, pt.Point):\n            self._reset_evaluation_cache()\n            return self._evaluate(point)", "        if isinstance(point, pt.Point):\n            return self._evaluate(point)", ".at(", True),
    ("c09-reset-does-not-recurse", "C09", B + "unary_expression.py", "        self._value = None\n        self._inner._reset_evaluation_cache()", "        self._value = None", "_reset_evaluation_cache", True),
    ("c09-memo-before-domain-check", "C09", B + "unary_expression.py", "        self._verify_domain_constraints(inner_value)\n        self._value = self._value_formula(inner_value)\n        return self._value", "        self._value = inner_value\n        self._verify_domain_constraints(inner_value)\n        self._value = self._value_formula(inner_value)\n        return self._value", "_evaluate", True),
    ("c09-partial-at-loses-reset", "C09", P + "partial.py", "            self._original_expression._reset_evaluation_cache()\n            return self._original_expression._numeric_partial(self._variable_name, point)", "            return self._original_expression._numeric_partial(self._variable_name, point)", "Partial", True),
    ("c06-component-wrong-key", "C06", P + "differential.py", "        synthetic_partial = self._synthetic_partials.get(variable_name, None)", "        synthetic_partial = self._synthetic_partials.get(\"x\", None)", "Differential(early)", True),
    ("c06-early-partial-skips-original", "C06", P + "partial.py", "            self._original_expression.at(point)\n            return self._synthetic_partial.at(point)", "            return self._synthetic_partial.at(point)", "Partial(early)", True),
    ("c07-early-partial-skips-original", "C07", P + "partial.py", "            self._original_expression.at(point)\n            return self._synthetic_partial.at(point)", "            return self._synthetic_partial.at(point)", "Partial(early)", True),
    ("c17-log-guard-removed", "C17", E + "logarithm.py", "        if inner_value == 0:\n            raise er.DomainError(\"Logarithm(x) blows up around x = 0\")\n        elif inner_value < 0:\n            raise er.DomainError(\"Logarithm(x) is undefined for x < 0\")", "        pass", "Logarithm", True),
    ("c17-rule-builds-zeroth-power", "C17", E + "nth_power.py", "return ex.NthPower(self._inner._inner, self.n * self._inner.n)", "return ex.NthPower(self._inner._inner, self.n - self._inner.n)", "NthPower._reduce_nth_power_of_mth_power", True),
    # keeping *args as a tuple is harmless for C10 (see c10-constructor-aliases-caller-list) but the
    # step driver then concatenates tuple + list: a TypeError escapes from normalisation
    ("c17-constructor-keeps-args-tuple", "C17", B + "n_ary_expression.py", "        self._inners = list(args)", "        self._inners = args", "_take_reduction_step", True),
    ("c17-abstract-method-left", "C17", E + "sine.py", "    def _verify_domain_constraints(", "    def _verify_domain_constraints_renamed(", "abstract", True),
]

# mutants of the n-ary code that the symbolic-arity (G-mode) families were validated against with
# PYVC_G_STRICT=1; in the registered checks an undischarged symbolic-arity obligation is a NOTE and
# the bounded-arity families refute these with a replayed input
MUTANTS += [
    ("g-c03-multiply-forward-keeps-own-factor", "C03", E + "multiply.py",
     "                inner._numeric_partial(variable_name, point),\n                *util.list_without_entry_at(inner_values, i)",
     "                inner._numeric_partial(variable_name, point),\n                *inner_values", "]._numeric_partial", True),
    ("g-c04-multiply-reverse-drops-multiplier", "C04", E + "multiply.py",
     "            next_multiplier = mf.multiply(\n                multiplier,\n                *util.list_without_entry_at(inner_values, i)\n            )",
     "            next_multiplier = mf.multiply(\n                *util.list_without_entry_at(inner_values, i)\n            )", "]._compute_numeric_partials", True),
    ("g-c05-multiply-symbolic-keeps-own-factor", "C05", E + "multiply.py",
     "                inner._synthetic_partial(variable_name),\n                *util.list_without_entry_at(self._inners, i)",
     "                inner._synthetic_partial(variable_name),\n                *self._inners", "]._synthetic_partial", True),
    ("g-c05-multiply-reverse-symbolic-plain-multiplier", "C05", E + "multiply.py",
     "            inner._compute_synthetic_partials(accumulator, next_multiplier)",
     "            inner._compute_synthetic_partials(accumulator, multiplier)", "]._compute_synthetic_partials", True),
    ("g-c08-zero-product-rule-nonpositive", "C08", E + "multiply.py",
     "isinstance(inner, ex.Constant) and inner.value == 0", "isinstance(inner, ex.Constant) and inner.value <= 0",
     "_reduce_product_when_multiplying_by_zero", True),
    ("g-c08-eliminate-ones-threshold", "C08", E + "multiply.py",
     "if not (isinstance(inner, ex.Constant) and inner.value == 1)", "if not (isinstance(inner, ex.Constant) and inner.value >= 1)",
     "_reduce_product_by_eliminating_ones", True),
    ("g-c08-consolidate-constants-drops-product", "C08", E + "multiply.py",
     "        return Multiply(*non_constants, ex.Constant(product))", "        return Multiply(*non_constants)",
     "_reduce_product_by_consolidating_constants", True),
    ("g-c08-negations-parity-swapped", "C08", E + "multiply.py",
     "        if util.is_even(negations_count):", "        if util.is_odd(negations_count):", "_reduce_product_by_eliminating_negations", True),
    ("g-c08-add-normal-form-loses-negation", "C08", E + "add.py",
     "            return ex.Negation(_simplified_Add(type_ii_terms))", "            return _simplified_Add(type_ii_terms)",
     "]._normalize_fully_reduced", True),
    ("g-c08-flatten-skips-one-after", "C08", E + "add.py",
     "        after = self._inners[i + 1:]", "        after = self._inners[i + 2:]", "_reduce_by_flattening_nested_sums", True),
    ("g-c09-step-driver-flags-without-rules", "C09", B + "n_ary_expression.py",
     "        for reducer in self._reducers:\n            reduced = reducer()\n            if reduced is not None:\n                return reduced\n        self._is_fully_reduced = True",
     "        self._is_fully_reduced = True", "]._take_reduction_step", True),
    ("g-c08-partition-helper-merges-both-lists", "C08", P + "utilities.py",
     "            misses.append(item)", "            hits.append(item)", "_reduce_product_by_consolidating_constants", True),
]
